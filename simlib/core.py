"""Common machinery for both simulation worlds.

One integer (VERIF_SEED) decides everything: run i of property P draws all of
its choices from rng_for(P, seed, i).  Runs are independent of each other and of
the worker count; results are merged in run-index order.
"""

import concurrent.futures
import faulthandler
import hashlib
import json
import multiprocessing
import os
import random
import shutil
import signal
import sys
import time
import traceback

VERIF_DIR = os.path.dirname(os.path.dirname(os.path.abspath(__file__)))
REPO = os.environ.get("VERIF_REPO", "/repo")
PYTHON = os.environ.get("VERIF_PYTHON", "/venv/bin/python")


def env_seed():
    try:
        return int(os.environ.get("VERIF_SEED", "1"))
    except ValueError:
        return 1


def rng_for(prop, seed, index, salt=""):
    h = hashlib.sha256(f"{prop}:{seed}:{index}:{salt}".encode()).digest()
    return random.Random(int.from_bytes(h[:8], "big"))


def digest_of(obj):
    return hashlib.sha256(
        json.dumps(obj, sort_keys=True, separators=(",", ":"), default=str).encode()
    ).hexdigest()


def text_digest(text):
    if isinstance(text, str):
        text = text.encode("utf-8", "surrogatepass")
    return hashlib.sha256(text).hexdigest()[:16]


# ---------------------------------------------------------------------------
# scratch space


_SCRATCH = None


def scratch_root():
    """One scratch directory per check invocation, under /dev/shm."""
    global _SCRATCH
    if _SCRATCH is None:
        base = "/dev/shm" if os.path.isdir("/dev/shm") else "/var/tmp"
        _SCRATCH = os.path.join(base, f"emboss-verif.{os.getpid()}")
        os.makedirs(_SCRATCH, exist_ok=True)
    return _SCRATCH


def remove_scratch():
    global _SCRATCH
    if _SCRATCH and os.path.isdir(_SCRATCH):
        shutil.rmtree(_SCRATCH, ignore_errors=True)
    _SCRATCH = None


# ---------------------------------------------------------------------------
# the run pool


class HarnessError(Exception):
    """Something in the verification machinery (not in emboss) went wrong."""


def _child_entry(fn, task, timeout_s):
    faulthandler.enable()
    if timeout_s:
        faulthandler.dump_traceback_later(timeout_s, exit=True)
    try:
        return {"ok": True, "result": fn(task)}
    except BaseException:  # pylint:disable=broad-except
        return {"ok": False, "trace": traceback.format_exc(), "task": repr(task)[:400]}
    finally:
        if timeout_s:
            faulthandler.cancel_dump_traceback_later()


def run_pool(fn, tasks, workers, per_task_timeout_s=600, wall_cap_s=None, on_result=None):
    """Runs fn(task) for each task in forked processes; returns results in task order.

    A task whose process dies or exceeds its timeout yields a HarnessError
    result, never a silent success.  When wall_cap_s expires, tasks not yet
    started are cancelled and reported as skipped (result None).
    """
    tasks = list(tasks)
    results = [None] * len(tasks)
    start = time.monotonic()
    ctx = multiprocessing.get_context("fork")
    harness_errors = []
    idx = 0
    with concurrent.futures.ProcessPoolExecutor(max_workers=workers, mp_context=ctx) as ex:
        pending = {}
        stop_submitting = False

        def submit_more():
            nonlocal idx
            while idx < len(tasks) and len(pending) < workers * 2 and not stop_submitting:
                fut = ex.submit(_child_entry, fn, tasks[idx], per_task_timeout_s)
                pending[fut] = idx
                idx += 1

        submit_more()
        while pending:
            done, _ = concurrent.futures.wait(
                list(pending), timeout=5, return_when=concurrent.futures.FIRST_COMPLETED
            )
            if wall_cap_s and time.monotonic() - start > wall_cap_s:
                stop_submitting = True
            for fut in done:
                i = pending.pop(fut)
                try:
                    r = fut.result()
                except BaseException as e:  # BrokenProcessPool etc.
                    harness_errors.append(f"task {i}: pool failure {e!r}")
                    continue
                if r["ok"]:
                    results[i] = r["result"]
                    if on_result:
                        on_result(i, r["result"])
                else:
                    harness_errors.append(f"task {i}: {r['trace']}")
            try:
                submit_more()
            except concurrent.futures.process.BrokenProcessPool as e:
                harness_errors.append(f"pool broken: {e!r}")
                break
    skipped = len(tasks) - idx
    return results, harness_errors, skipped


# ---------------------------------------------------------------------------
# ddmin


def ddmin(items, still_fails, max_tests=200):
    """Classic delta debugging on a list; still_fails(list) -> bool."""
    tests = 0
    n = 2
    items = list(items)
    while len(items) >= 2 and tests < max_tests:
        chunk = max(1, len(items) // n)
        subsets = [items[i : i + chunk] for i in range(0, len(items), chunk)]
        reduced = False
        for i in range(len(subsets)):
            complement = [x for j, s in enumerate(subsets) if j != i for x in s]
            tests += 1
            if complement and still_fails(complement):
                items = complement
                n = max(n - 1, 2)
                reduced = True
                break
            if tests >= max_tests:
                break
        if not reduced:
            if n >= len(items):
                break
            n = min(len(items), n * 2)
    if len(items) == 1 and tests < max_tests:
        if still_fails([]):
            return []
    return items


# ---------------------------------------------------------------------------
# known findings


def load_known_findings():
    path = os.path.join(VERIF_DIR, "known_findings.json")
    if not os.path.exists(path):
        return []
    with open(path) as f:
        return json.load(f).get("findings", [])


def match_known(failure, findings):
    """Returns the id of the known finding that explains `failure`, or None.

    Matching is on the structured failure record (property, class, facts),
    never on message text.  Entries with status 'fixed' match nothing.
    """
    for kf in findings:
        if kf.get("status") != "known":
            continue
        if kf.get("property") != failure.get("property"):
            continue
        m = kf.get("match", {})
        ok = True
        for key, want in m.items():
            have = failure.get(key)
            if key == "facts":
                facts = failure.get("facts", {})
                for fk, fv in want.items():
                    if facts.get(fk) != fv:
                        ok = False
                        break
                if not ok:
                    break
                continue
            if isinstance(want, list):
                if have not in want:
                    ok = False
                    break
            elif have != want:
                ok = False
                break
        if ok:
            return kf["id"]
    return None


# ---------------------------------------------------------------------------
# evidence and replay files


def write_json_atomic(path, obj):
    os.makedirs(os.path.dirname(path), exist_ok=True)
    tmp = path + f".tmp{os.getpid()}"
    with open(tmp, "w") as f:
        json.dump(obj, f, indent=1, sort_keys=True, default=str)
        f.write("\n")
    os.replace(tmp, path)


def write_evidence(prop, tier, seed, wall_s, violations, coverage, assumptions):
    path = os.path.join(VERIF_DIR, "evidence", f"{prop}.json")
    ev = {
        "property_id": prop,
        "tier": tier,
        "seed": seed,
        "level": "exploration",
        "wall_s": round(wall_s, 2),
        "violations": violations,
        "coverage": coverage,
        "assumptions": assumptions,
    }
    write_json_atomic(path, ev)
    return path


def write_replay(prop, failure, replay_body):
    d = digest_of(replay_body)[:8]
    name = f"{prop}-{failure.get('run_seed', 0)}-{failure.get('run_index', 0)}-{d}.json"
    path = os.path.join(os.environ.get("VERIF_REPLAY_DIR") or os.path.join(VERIF_DIR, "replays"), name)
    write_json_atomic(path, replay_body)
    return path


def tool_versions():
    return {"python": sys.version.split()[0], "repo": REPO}


def install_signal_cleanup(cleanup):
    def handler(signum, _frame):
        try:
            cleanup()
        finally:
            os._exit(2)

    for s in (signal.SIGTERM, signal.SIGINT, signal.SIGHUP):
        signal.signal(s, handler)
