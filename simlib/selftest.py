"""setup, evidence validation and the determinism self-test."""

import glob
import json
import os
import shutil
import subprocess
import sys

from simlib import core


def setup(args):
    ok = True
    for tool in (core.PYTHON, "clang++-14"):
        if shutil.which(tool) is None and not os.path.exists(tool):
            print(f"setup: missing {tool}", file=sys.stderr)
            ok = False
    if not os.path.isdir(os.path.join(core.REPO, "compiler")):
        print(f"setup: {core.REPO} does not look like google/emboss", file=sys.stderr)
        ok = False
    os.makedirs(os.path.join(core.VERIF_DIR, "evidence"), exist_ok=True)
    os.makedirs(os.path.join(core.VERIF_DIR, "replays"), exist_ok=True)
    print("setup: ok" if ok else "setup: FAILED")
    return 0 if ok else 2


def validate_evidence(args):
    schema_path = "/root/.vp/EVIDENCE.schema.json"
    try:
        import jsonschema  # only in the tooling venv
    except ImportError:
        return subprocess.call(["python3-vt", os.path.join(core.VERIF_DIR, "bin", "check.py"), "validate-evidence"])
    schema = json.load(open(schema_path))
    bad = 0
    for p in sorted(glob.glob(os.path.join(core.VERIF_DIR, "evidence", "*.json"))):
        try:
            jsonschema.validate(json.load(open(p)), schema)
            print("valid  ", p)
        except Exception as e:  # pylint:disable=broad-except
            bad += 1
            print("INVALID", p, str(e)[:300])
    return 1 if bad else 0


def determinism(args):
    """Runs a sample of seeds twice, in different processes, at two worker counts and under two hash
    seeds of the simulator's own interpreter, and compares the per-run event-log digests."""
    props = os.environ.get("VERIF_SELFTEST_PROPS", "C17,C16,C01,C03").split(",")
    n = 8 if args.tier == "quick" else 48
    bad = 0
    for prop in props:
        outs = []
        for hs, workers in (("0", 16), ("7", 4)):
            env = dict(os.environ, PYTHONHASHSEED=hs, VERIF_DIGESTS="1")
            r = subprocess.run([core.PYTHON, os.path.join(core.VERIF_DIR, "bin", "check.py"), prop, "--runs", str(n),
                                "--workers", str(workers), "--no-evidence", "--digests-only"],
                               env=env, capture_output=True, text=True)
            digests = [l for l in r.stdout.splitlines() if l.startswith("DIGEST ")]
            outs.append(digests)
            if not digests:
                print(f"selftest-determinism {prop}: no digests (rc={r.returncode})\n{r.stdout[-800:]}\n{r.stderr[-800:]}")
                bad += 1
        if outs[0] != outs[1]:
            bad += 1
            diff = [(a, b) for a, b in zip(outs[0], outs[1]) if a != b]
            print(f"selftest-determinism {prop}: MISMATCH in {len(diff)} of {len(outs[0])} runs, e.g. {diff[:2]}")
        else:
            print(f"selftest-determinism {prop}: {len(outs[0])} runs identical across processes, worker counts (16/4) and simulator hash seeds (0/7)")
    return 2 if bad else 0


def sensitivity(args):
    """Applies seeded changes (seeded/<id>/patch.diff) one at a time to a scratch copy of the repository
    (never to /repo), runs the owning check's quick tier against the copy via VERIF_REPO, and reports
    whether it raised a VIOLATION.  VERIF_SENS_IDS=a,b,c selects changes (default: one per property)."""
    import shutil
    import tempfile

    seeded = os.path.join(core.VERIF_DIR, "seeded")
    metas = {}
    for d in sorted(os.listdir(seeded)):
        mp = os.path.join(seeded, d, "meta.json")
        if os.path.exists(mp):
            metas[d] = json.load(open(mp))
    ids = [x for x in os.environ.get("VERIF_SENS_IDS", "").split(",") if x]
    if ids == ["all"]:
        ids = sorted(metas)
    if not ids:
        seen = set()
        for d, m in sorted(metas.items()):
            if m["property"] not in seen:
                seen.add(m["property"])
                ids.append(d)
    base = "/dev/shm" if os.path.isdir("/dev/shm") else tempfile.gettempdir()
    missed = 0
    for sid in ids:
        m = metas[sid]
        scratch = os.path.join(base, f"emboss-verif-sens.{os.getpid()}.{sid}")
        shutil.rmtree(scratch, ignore_errors=True)
        shutil.copytree(core.REPO, scratch, ignore=shutil.ignore_patterns(".git", "__pycache__"))
        try:
            r = subprocess.run(["patch", "-p1", "-s", "-i", os.path.join(seeded, sid, "patch.diff")], cwd=scratch, capture_output=True, text=True)
            if r.returncode != 0:
                print(f"selftest-sensitivity {sid}: patch does not apply to the current tree ({r.stdout.strip()[:200]})")
                missed += 1
                continue
            env = dict(os.environ, VERIF_REPO=scratch, VERIF_REPLAY_DIR=os.path.join(scratch, "_replays"))
            p = subprocess.run([core.PYTHON, os.path.join(core.VERIF_DIR, "bin", "check.py"), m["property"], "--tier", "quick", "--no-evidence"],
                               env=env, capture_output=True, text=True)
            viol = [l for l in p.stdout.splitlines() if l.startswith("VIOLATION")]
            ok = p.returncode == 1 and viol
            print(f"selftest-sensitivity {sid}: property {m['property']} {'DETECTED (' + str(len(viol)) + ' violation classes)' if ok else 'MISSED rc=' + str(p.returncode)}")
            if not ok:
                missed += 1
        finally:
            shutil.rmtree(scratch, ignore_errors=True)
    print(f"selftest-sensitivity: {len(ids) - missed} of {len(ids)} seeded changes detected by the quick tier")
    return 0 if missed == 0 else 2
