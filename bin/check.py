#!/venv/bin/python
"""Entry point of the emboss deterministic-simulation checks.

  bin/check.py <C01|C03|C04|C06|C16|C17|C18|C20> [--tier quick|thorough] [--replay FILE]
  bin/check.py selftest-determinism | selftest-sensitivity | validate-evidence

Exit status: 0 = property held on everything explored (possibly with
KNOWN-FINDING lines); 1 = at least one confirmed VIOLATION; 2 = harness problem.
"""

import argparse
import os
import sys

sys.path.insert(0, os.path.dirname(os.path.dirname(os.path.abspath(__file__))))
# A fixed hash seed for the simulator itself (the determinism self-test varies it).
if os.environ.get("PYTHONHASHSEED") is None and "jsonschema" not in sys.modules:
    os.environ["PYTHONHASHSEED"] = "0"
    os.execv(sys.executable, [sys.executable] + sys.argv)

from simlib import core  # noqa: E402

WORLD_A = ("C16", "C17", "C18")
WORLD_B = ("C01", "C03", "C04", "C06", "C20")


def main(argv):
    ap = argparse.ArgumentParser()
    ap.add_argument("what")
    ap.add_argument("--tier", default=os.environ.get("VERIF_TIER", "quick"), choices=["quick", "thorough"])
    ap.add_argument("--replay")
    ap.add_argument("--runs", type=int)
    ap.add_argument("--workers", type=int, default=int(os.environ.get("VERIF_WORKERS", "16")))
    ap.add_argument("--no-evidence", action="store_true")
    ap.add_argument("--quiet-confirm", action="store_true", help=argparse.SUPPRESS)
    ap.add_argument("--digests-only", action="store_true", help=argparse.SUPPRESS)
    args = ap.parse_args(argv[1:])
    os.chdir(core.VERIF_DIR)
    if args.what in WORLD_A:
        from worlda import check_a
        return check_a.main(args)
    if args.what in WORLD_B:
        from worldb import check_b
        return check_b.main(args)
    if args.what == "setup":
        from simlib import selftest
        return selftest.setup(args)
    if args.what == "selftest-determinism":
        from simlib import selftest
        return selftest.determinism(args)
    if args.what == "selftest-sensitivity":
        from simlib import selftest
        return selftest.sensitivity(args)
    if args.what == "validate-evidence":
        from simlib import selftest
        return selftest.validate_evidence(args)
    print(f"unknown check {args.what}", file=sys.stderr)
    return 2


if __name__ == "__main__":
    try:
        rc = main(sys.argv)
    except core.HarnessError as e:
        print(f"HARNESS-ERROR: {e}", file=sys.stderr)
        rc = 2
    finally:
        core.remove_scratch()
    sys.exit(rc)
