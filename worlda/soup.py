"""Workload for World A: syntactically valid, semantically arbitrary multi-file programs.

`semantic_soup` writes one to three modules in correct Emboss syntax whose names, types,
argument lists, member paths, attribute values and expression types are right *most* of the
time and wrong at a few drawn sites (a typo at the bottom of an alias chain, a parameterised
type used with the wrong number of arguments from another file, a boolean where an integer is
wanted, ...).  Most passes of the front end are reached that way, each with inputs that break
one of its assumptions.  `valid_import_graph` writes valid multi-file projects (diamond
imports, unused imports, parameterised and aliased types across files).

Everything is a deterministic function of the random.Random passed in.
"""

from worlda import workload as W

_PRELUDE_SCALARS = ["UInt", "Int", "Flag", "Bcd", "Float"]


class _Type:
    def __init__(self, kind, name, nparams=0, members=(), values=(), size=1, param_kinds=()):
        self.kind, self.name, self.nparams = kind, name, nparams  # kind: struct | bits | enum
        self.members = list(members)  # [(field name, _Type or None)]
        self.values = list(values)
        self.size = size
        self.param_kinds = list(param_kinds)


class _Soup:
    def __init__(self, rng, flaw_rate):
        self.rng = rng
        self.flaw = flaw_rate
        self.used = []

    def bad(self, scale=1.0):
        return self.rng.random() < self.flaw * scale

    # -- names
    def typo(self, name):
        r = self.rng.random()
        if r < 0.4 and len(name) > 2:
            i = self.rng.randrange(len(name) - 1)
            return name[:i] + name[i + 1] + name[i] + name[i + 2:]
        if r < 0.7:
            return name + self.rng.choice(["x", "_1", "2"])
        return self.rng.choice(["nope", "missing_name", "Nope", "NOPE", "this", "UInt", "x"])

    # -- expressions
    def int_expr(self, ctx, depth=0):
        rng = self.rng
        if self.bad(0.5):
            return self.bool_expr(ctx, depth + 1)
        choices = ["const", "const", "ref", "ref"]
        if depth < 3:
            choices += ["bin", "bin", "cond", "max", "bound"]
        k = rng.choice(choices)
        if k == "const":
            return str(rng.choice([0, 1, 2, 3, 4, 7, 8, 16, 255, 256, 65535, -1, 0x7fff_ffff, 1 << 32, (1 << 63) - 1, (1 << 64) - 1])
                       if rng.random() < 0.3 else rng.randint(0, 9))
        if k == "ref":
            return self.ref(ctx, want="int")
        if k == "bin":
            return f"({self.int_expr(ctx, depth + 1)} {rng.choice(['+', '-', '*'])} {self.int_expr(ctx, depth + 1)})"
        if k == "cond":
            return f"({self.bool_expr(ctx, depth + 1)} ? {self.int_expr(ctx, depth + 1)} : {self.int_expr(ctx, depth + 1)})"
        if k == "max":
            return "$max(" + ", ".join(self.int_expr(ctx, depth + 1) for _ in range(rng.randint(1, 3))) + ")"
        return f"{rng.choice(['$upper_bound', '$lower_bound'])}({self.int_expr(ctx, depth + 1)})"

    def bool_expr(self, ctx, depth=0):
        rng = self.rng
        if self.bad(0.5):
            return self.int_expr(ctx, depth + 1)
        choices = ["cmp", "cmp", "const", "present", "enumcmp", "flag"]
        if depth < 3:
            choices += ["and", "or"]
        k = rng.choice(choices)
        if k == "const":
            return rng.choice(["true", "false"])
        if k == "cmp":
            return f"{self.int_expr(ctx, depth + 1)} {rng.choice(['==', '!=', '<', '<=', '>', '>='])} {self.int_expr(ctx, depth + 1)}"
        if k == "present":
            return f"$present({self.ref(ctx, want='any')})"
        if k == "flag":
            return self.ref(ctx, want="bool")
        if k == "enumcmp":
            e = self.enum_value(ctx)
            if e is not None:
                return f"{self.ref(ctx, want='enum')} {rng.choice(['==', '!='])} {e}"
            return rng.choice(["true", "false"])
        op = "&&" if k == "and" else "||"
        return f"({self.bool_expr(ctx, depth + 1)} {op} {self.bool_expr(ctx, depth + 1)})"

    def enum_value(self, ctx):
        enums = [t for t in ctx["visible_types"] if t[1].kind == "enum" and t[1].values]
        if not enums:
            return None
        qual, t = self.rng.choice(enums)
        v = self.rng.choice(t.values)
        if self.bad():
            v = self.typo(v)
        return f"{qual}{t.name}.{v}"

    def ref(self, ctx, want="int"):
        """A reference to something in scope: a field, a member path, a parameter, an alias."""
        rng = self.rng
        fields = ctx["fields"]  # [(name, kind, _Type or None)]
        cands = [f for f in fields if want == "any" or f[1] == want]
        if ctx["params"] and want in ("int", "any") and rng.random() < 0.3:
            n = rng.choice(ctx["params"])
            return self.typo(n) if self.bad() else n
        aggs = [f for f in fields if f[1] == "agg" and f[2] is not None and f[2].members]
        if aggs and rng.random() < (0.6 if want == "any" else 0.35):
            return self.path(ctx, rng.choice(aggs))
        if not cands:
            cands = fields
        if not cands:
            return rng.choice(["0", "nope"])
        n = rng.choice(cands)[0]
        return self.typo(n) if self.bad() else n

    def path(self, ctx, agg, depth=0):
        name, _k, t = agg
        out = [name]
        while t is not None and t.members and depth < 3:
            mname, mt = self.rng.choice(t.members)
            out.append(self.typo(mname) if self.bad() else mname)
            t = mt
            depth += 1
            if self.rng.random() < 0.5:
                break
        # what the path was *meant* to denote, so that an alias of it can be chained through even
        # when a member name in it is misspelt
        self.intended = t
        return ".".join(out)

    # -- type definitions
    def make_enum(self, name):
        rng = self.rng
        vals = []
        lines = [f"enum {name}:"]
        if rng.random() < 0.3:
            lines.append(f"  [maximum_bits: {rng.choice([1, 7, 8, 16, 32, 64, 65] if self.bad(2) else [8, 16, 32])}]")
        if rng.random() < 0.15:
            lines.append(f"  [is_signed: {rng.choice(['true', 'false'])}]")
        for i in range(rng.randint(1, 4)):
            v = W.shouty(rng, self.used)
            vals.append(v)
            val = str(i + 1)
            if self.bad():
                val = rng.choice(["-1", "256", "18446744073709551616", vals[0] + " + 1", "true", "1 + 1", self.typo(vals[0])])
            elif rng.random() < 0.2 and i:
                val = f"{vals[i - 1]} + {rng.randint(1, 3)}"
            lines.append(f"  {v} = {val}")
        return _Type("enum", name, values=vals), lines

    def type_use(self, ctx, allow_array=True):
        """Returns (type text, size in bytes or None when the caller may choose, kind, _Type)."""
        rng = self.rng
        r = rng.random()
        vis = ctx["visible_types"]
        if r < 0.45 or not vis:
            k = rng.choice(_PRELUDE_SCALARS if not self.bad() else _PRELUDE_SCALARS + ["Uint", "Int32", "Nope"])
            size = rng.choice([1, 2, 4, 8]) if k != "Flag" else 1
            if k == "Float":
                size = rng.choice([4, 8] if not self.bad() else [2, 3, 4])
            txt = k
            if rng.random() < 0.3:
                bits = size * 8 if not self.bad(2) else rng.choice([0, 7, 9, 65, size * 8 + 8])
                txt += f":{bits}"
            kind = "bool" if k == "Flag" else "int"
            if allow_array and rng.random() < 0.2:
                esz = size
                n = rng.randint(1, 4)
                count = str(n) if rng.random() < 0.5 else ("" if rng.random() < 0.5 else self.int_expr(ctx, 2))
                if ":" not in txt:
                    txt += f":{esz * 8}"
                return f"{txt}[{count}]", esz * n, "array", None
            return txt, size, kind, None
        qual, t = rng.choice(vis)
        name = t.name if not self.bad() else self.typo(t.name)
        txt = qual + name
        if t.kind == "enum":
            return txt, rng.choice([1, 2]), "enum", t
        nargs = t.nparams
        if self.bad(2):
            nargs = max(0, nargs + rng.choice([-1, 1]))
        if nargs or (t.nparams and rng.random() < 0.5):
            args = []
            for i in range(nargs):
                pk = t.param_kinds[i] if i < len(t.param_kinds) else "int"
                if pk == "enum" and not self.bad(2):
                    args.append(self.enum_value(ctx) or "0")
                else:
                    args.append(self.int_expr(ctx, 2))
            txt += "(" + ", ".join(args) + ")"
        size = t.size if not self.bad() else t.size + rng.choice([-1, 1])
        if allow_array and rng.random() < 0.15:
            n = rng.randint(1, 3)
            return f"{txt}[{n if rng.random() < 0.6 else ''}]", max(0, size) * n, "array", None
        return txt, max(0, size), "agg", t

    def make_struct(self, name, ctx_types, kind="struct"):
        rng = self.rng
        params = []
        param_kinds = []
        if kind == "struct" and rng.random() < 0.35:
            for _ in range(rng.randint(1, 2)):
                pn = W.snake(rng, self.used)
                enums = [t for t in ctx_types if t[1].kind == "enum"]
                if enums and rng.random() < 0.3:
                    q, e = rng.choice(enums)
                    params.append(f"{pn}: {q}{e.name}")
                    param_kinds.append("enum")
                else:
                    params.append(f"{pn}: {rng.choice(['UInt', 'Int'])}:{rng.choice([4, 8, 16, 32] if not self.bad() else [0, 65, 8])}")
                    param_kinds.append("int")
                params[-1] = (pn, params[-1])
        header = f"{kind} {name}" + ("(" + ", ".join(p[1] for p in params) + ")" if params else "") + ":"
        lines = [header]
        ctx = {"fields": [], "params": [p[0] for p in params], "visible_types": ctx_types}
        if rng.random() < 0.15:
            lines.append(f'  [$default byte_order: "{rng.choice(["LittleEndian", "BigEndian", "Null"] if not self.bad(2) else ["Middle"])}"]')
        members = []
        off = 0
        dynamic = False
        unit = 1
        for _ in range(rng.randint(1, 7)):
            r = rng.random()
            indent = "  "
            if r < 0.2 and ctx["fields"]:
                lines.append(f"  if {self.bool_expr(ctx)}:")
                indent = "    "
            if r > 0.75 and ctx["fields"]:
                # virtual field: arithmetic, or an alias (possibly of an aggregate or of an earlier alias)
                vn = W.snake(rng, self.used)
                if rng.random() < 0.5:
                    self.intended = "unset"
                    target = self.ref(ctx, want="any")
                    lines.append(f"{indent}let {vn} = {target}")
                    # what the alias denotes, so that later aliases can chain through it
                    if self.intended != "unset":
                        t = self.intended
                    else:
                        t = None
                        for f in ctx["fields"]:
                            if f[0] == target:
                                t = f[2]
                    ctx["fields"].append((vn, "agg" if t is not None else "int", t))
                    members.append((vn, t))
                else:
                    e = self.int_expr(ctx) if rng.random() < 0.7 else self.bool_expr(ctx)
                    lines.append(f"{indent}let {vn} = {e}")
                    ctx["fields"].append((vn, "int", None))
                    members.append((vn, None))
                if rng.random() < 0.2:
                    lines.append(f"{indent}  [requires: {self.bool_expr(dict(ctx, fields=[('this', 'int', None)]))}]")
                continue
            if kind == "bits":
                w = rng.choice([1, 2, 3, 4, 8])
                tk = rng.choice(["UInt", "Int", "Flag"]) if w > 1 else rng.choice(["UInt", "Flag"])
                if tk == "Flag":
                    w = 1 if not self.bad(2) else 2
                fn = W.snake(rng, self.used)
                lines.append(f"{indent}{off} [+{w}]  {tk}  {fn}")
                ctx["fields"].append((fn, "bool" if tk == "Flag" else "int", None))
                members.append((fn, None))
                off += w
                continue
            if rng.random() < 0.15:
                # anonymous bits
                nb = rng.choice([1, 2, 4])
                start = str(off) if not dynamic else "$next"
                lines.append(f"{indent}{start} [+{nb}]  bits:")
                bit = 0
                for _k in range(rng.randint(1, 3)):
                    w = rng.randint(1, 5)
                    fn = W.snake(rng, self.used)
                    tk = rng.choice(["UInt", "Int", "Flag"])
                    if tk == "Flag":
                        w = 1
                    lines.append(f"{indent}  {bit} [+{w}]  {tk}  {fn}")
                    ctx["fields"].append((fn, "bool" if tk == "Flag" else "int", None))
                    members.append((fn, None))
                    bit += w
                off += nb
                continue
            txt, size, fk, t = self.type_use(ctx)
            fn = W.snake(rng, self.used)
            if self.bad(0.5) and ctx["fields"]:
                fn = ctx["fields"][0][0]  # duplicate name
            start = str(off) if not dynamic else rng.choice(["$next", "$next", self.int_expr(ctx, 2)])
            if rng.random() < 0.12 and ctx["fields"]:
                start = self.int_expr(ctx, 2)
            size_txt = str(size)
            if fk == "array" and rng.random() < 0.5 and ctx["fields"]:
                size_txt = self.int_expr(ctx, 2)
                dynamic = True
            if self.bad():
                size_txt = rng.choice(["0", "-1", str(size + 1), "true", self.int_expr(ctx, 2)])
            abbrev = f" ({fn[:2]})" if rng.random() < 0.1 else ""
            lines.append(f"{indent}{start} [+{size_txt}]  {txt}  {fn}{abbrev}")
            if rng.random() < 0.15:
                attr = rng.choice(['[byte_order: "BigEndian"]', '[byte_order: "LittleEndian"]', '[text_output: "Skip"]',
                                   "[requires: this < 100]", "[requires: this != 0 && this <= 7]"]
                                  if not self.bad(2) else ['[byte_order: "Null"]', "[requires: this]", "[requires: 1]", "[fixed_size_in_bits: 8]",
                                                           '[(cpp) namespace: "x"]', "[requires: this == " + self.ref(ctx, "enum") + "]"])
                lines.append(f"{indent}  {attr}")
            ctx["fields"].append((fn, fk, t))
            members.append((fn, t))
            if abbrev:
                ctx["fields"].append((fn[:2], fk, t))
            off += size
        if rng.random() < 0.1:
            lines.insert(1, f"  [requires: {self.bool_expr(ctx)}]")
        return _Type(kind, name, nparams=len(params), members=members, size=max(1, off if kind == "struct" else (off + 7) // 8),
                     param_kinds=param_kinds), lines


def semantic_soup(rng):
    """(files, entry, tags): 1-3 modules, mostly right, wrong at a few drawn sites."""
    s = _Soup(rng, rng.choice([0.0, 0.03, 0.06, 0.12]))
    nlibs = rng.choice([0, 1, 1, 2])
    files = {}
    lib_types = []  # (file name, alias, [types])
    for i in range(nlibs):
        fname = f"lib{i}.emb"
        alias = f"l{i}"
        head = []
        vis = []
        if i > 0 and rng.random() < 0.5:
            head.append(f'import "lib{i - 1}.emb" as prev')
            vis += [("prev.", t) for t in lib_types[i - 1][2]]
        head.append(W._hdr(rng).rstrip("\n"))
        body, types = _soup_types(s, rng, vis, rng.randint(2, 9))
        # pad so that definitions sit on lines that do not exist in a short importing file
        pad = ["", "# " + "-" * rng.randint(3, 40)] * rng.randint(0, 12)
        files[fname] = "\n".join(head + pad + body) + "\n"
        lib_types.append((fname, alias, types))
    head = []
    vis = []
    for fname, alias, types in lib_types:
        if rng.random() < 0.85:
            head.append(f'import "{fname}" as {alias}')
            if rng.random() < 0.8:  # otherwise imported but unused
                vis += [(alias + ".", t) for t in types]
    if s.bad(2):
        head.append('import "lib_missing.emb" as gone')
    head.append(W._hdr(rng).rstrip("\n"))
    body, _types = _soup_types(s, rng, vis, rng.randint(1, 4))
    files["m.emb"] = "\n".join(head + body) + "\n"
    return files, "m.emb", ["semantic_soup", f"flaw_rate_{s.flaw}"]


def _soup_types(s, rng, imported, n):
    lines = []
    types = []
    vis = list(imported)
    for _ in range(n):
        r = rng.random()
        name = W.camel(rng, s.used)
        if r < 0.25:
            t, ls = s.make_enum(name)
        elif r < 0.4:
            t, ls = s.make_struct(name, vis, kind="bits")
        else:
            t, ls = s.make_struct(name, vis)
        types.append(t)
        vis.append(("", t))
        lines += ls + [""]
    return lines, types


def valid_import_graph(rng):
    """A valid project of 2-5 files: diamond imports, an unused import, a parameterised type and an
    enum used across files, aliases of imported aggregates."""
    used = []
    n = rng.randint(2, 4)
    files = {}
    info = []
    for i in range(n):
        e = W.camel(rng, used)
        sname = W.camel(rng, used)
        pname = W.camel(rng, used)
        v1, v2 = W.shouty(rng, used), W.shouty(rng, used)
        imports = []
        body_extra = ""
        if i > 0:
            for j in range(i):
                if rng.random() < 0.6:
                    imports.append((j, f"dep{j}"))
        text = "".join(f'import "dir{j}/f{j}.emb" as {a}\n' for j, a in imports) + W._hdr(rng)
        text += f"enum {e}:\n  [maximum_bits: 8]\n  {v1} = {rng.randint(0, 3)}\n  {v2} = {rng.randint(4, 9)}\n"
        text += f"struct {pname}(limit: UInt:8, mode: {e}):\n  [requires: value <= limit]\n  0 [+1]  UInt  value\n"
        text += f"  if mode == {e}.{v2}:\n    1 [+2]  UInt  extra\n  let doubled = value * 2\n"
        text += f"struct {sname}:\n  0 [+1]  {e}  kind\n  1 [+1]  UInt  count\n  2 [+3]  {pname}(200, {e}.{v2})  inner\n"
        text += "  let inner_value = inner.value\n  let inner_alias = inner\n  let through = inner_alias.doubled\n"
        off = 5
        for j, a in imports:
            if rng.random() < 0.75:  # otherwise the import stays unused
                je, js, jp, jv, jsize = info[j]
                text += f"  if kind == {e}.{v1}:\n    {off} [+{jsize}]  {a}.{js}  far{j}\n"
                off += jsize
                text += f"  {off} [+3]  {a}.{jp}(count, {a}.{je}.{jv})  par{j}\n"
                off += 3
                text += f"  let far{j}_through = par{j}.doubled + {rng.randint(1, 9)}\n"
        files[f"dir{i}/f{i}.emb"] = text
        info.append((e, sname, pname, v2, off))
    last = n - 1
    main = "".join(f'import "dir{j}/f{j}.emb" as m{j}\n' for j in range(n) if rng.random() < 0.8 or j == last) + W._hdr(rng)
    main += f"struct Top:\n  0 [+{info[last][4]}]  m{last}.{info[last][1]}  body\n  let k = body.kind\n"
    files["m.emb"] = main
    return files, "m.emb", ["valid", "imports", "import_graph"]
