"""Workload for World A: syntactically valid, semantically arbitrary multi-file programs.

`semantic_soup` writes one to three modules in correct Emboss syntax whose names, types,
argument lists, member paths, attribute values and expression types are right *most* of the
time and wrong at a few drawn sites (a typo at the bottom of an alias chain, a parameterised
type used with the wrong number of arguments from another file, a boolean where an integer is
wanted, ...).  Most passes of the front end are reached that way, each with inputs that break
one of its assumptions.  `valid_import_graph` writes valid multi-file projects (diamond
imports, unused imports, parameterised and aliased types across files).

Everything is a deterministic function of the random.Random passed in.
"""

from worlda import workload as W

_PRELUDE_SCALARS = ["UInt", "Int", "Flag", "Bcd", "Float"]


class _Type:
    def __init__(self, kind, name, nparams=0, members=(), values=(), size=1, param_kinds=(), fixed=True):
        self.kind, self.name, self.nparams = kind, name, nparams  # kind: struct | bits | enum
        self.members = list(members)  # [(field name, field kind, _Type or None)]
        self.values = list(values)
        self.size = size              # bytes a field of this type occupies
        self.param_kinds = list(param_kinds)  # "int" | ("enum", _Type)
        self.fixed = fixed            # False when the size depends on the contents


class _Soup:
    """Field kinds: int (UInt/Int/Bcd up to 4 bytes), wide (8-byte integers: no arithmetic), bool, enum,
    float, agg (struct/bits typed), array, other."""

    def __init__(self, rng, flaw_sites):
        self.rng = rng
        self.flaw_sites = flaw_sites  # indices of the decision sites at which something is done wrong
        self.site = 0
        self.used = []
        self.abbrevs = set()
        self.intended = None
        self.root_sites = []

    def bad(self, scale=1.0):
        """One decision site: is this the place where the program goes wrong?  (Sites are numbered in
        generation order; the caller drew which of them are flawed, so a module has a few flaws spread
        uniformly over its text instead of one per so-many sites.)"""
        self.site += 1
        return self.site in self.flaw_sites

    def bad_root(self):
        """A decision site at the root of a chain of dependent constructs (everything downstream has to
        cope with the root being broken); remembered so that the caller can prefer such sites."""
        self.root_sites.append(self.site + 1)
        return self.bad()

    # -- names
    def typo(self, name):
        """A misspelling of `name` in the same lexical class (so that the flaw is a name error, not a syntax error)."""
        r = self.rng.random()
        shouty = name.isupper()
        camel = name[:1].isupper() and not shouty
        if r < 0.4 and len(name) > 3:
            i = self.rng.randrange(1, len(name) - 1)
            if name[i] != "_" and name[i + 1] != "_" and name[i].isupper() == name[i + 1].isupper() and name[i] != name[i + 1]:
                return name[:i] + name[i + 1] + name[i] + name[i + 2:]
        if r < 0.75:
            return name + ("X" if (shouty or camel) else self.rng.choice(["x", "_1", "2"]))
        if shouty:
            return self.rng.choice(["NOPE", "MISSING_NAME"])
        if camel:
            return self.rng.choice(["Nope", "MissingName", "UInt"])
        return self.rng.choice(["nope", "missing_name", "x"])

    def name(self, n):
        return self.typo(n) if self.bad() else n

    # -- what can be referenced
    def reachable(self, ctx, depth=3):
        """[(path parts, kind, _Type)] of everything a reference may denote in this scope."""
        out = []

        def walk(prefix, kind, t, d):
            out.append((prefix, kind, t))
            if kind == "agg" and t is not None and d > 0:
                for mn, mk, mt in t.members:
                    walk(prefix + [mn], mk, mt, d - 1)

        for fname, fkind, ft in ctx["fields"]:
            walk([fname], fkind, ft, depth)
        for pname, pkind, pt in ctx["params"]:
            out.append(([pname], pkind, pt))
        return out

    def ref(self, ctx, want):
        """Text of a reference of the wanted kind (int | bool | enum | any), or None when nothing fits."""
        cands = [c for c in self.reachable(ctx) if want == "any" and c[1] != "param_only" or c[1] == want]
        if want == "any":
            cands = [c for c in cands if c[0][0] not in [p[0] for p in ctx["params"]]]  # $present / aliases take fields
        if not cands:
            return None
        # prefer longer paths now and then: member access is where the interesting resolution happens
        long = [c for c in cands if len(c[0]) > 1]
        parts, kind, t = self.rng.choice(long if long and self.rng.random() < 0.5 else cands)
        self.intended = (kind, t)
        return ".".join(self.name(x) for x in parts)

    # -- expressions
    def int_expr(self, ctx, depth=0):
        rng = self.rng
        if self.bad():
            return self.bool_expr(ctx, depth + 1)
        choices = ["const", "const", "ref", "ref", "ref"]
        if depth < 3:
            choices += ["add", "add", "mul", "cond", "max", "bound"]
        k = rng.choice(choices)
        if k == "ref":
            r = self.ref(ctx, "int")
            if r is not None:
                return r
            k = "const"
        if k == "const":
            if self.bad():
                return str(rng.choice([-1, 0x7fff_ffff, 1 << 32, (1 << 63) - 1, 1 << 63, (1 << 64) - 1, 1 << 64]))
            return str(rng.choice([0, 1, 2, 3, 4, 7, 8, 16, 255, rng.randint(0, 9)]))
        if k == "add":
            return f"({self.int_expr(ctx, depth + 1)} {rng.choice(['+', '-'])} {self.int_expr(ctx, depth + 1)})"
        if k == "mul":
            return f"({self.int_expr(ctx, depth + 1)} * {rng.randint(0, 9)})"
        if k == "cond":
            return f"({self.bool_expr(ctx, depth + 1)} ? {self.int_expr(ctx, depth + 1)} : {self.int_expr(ctx, depth + 1)})"
        if k == "max":
            return "$max(" + ", ".join(self.int_expr(ctx, depth + 1) for _ in range(rng.randint(1, 3))) + ")"
        return f"{rng.choice(['$upper_bound', '$lower_bound'])}({self.int_expr(ctx, depth + 1)})"

    def bool_expr(self, ctx, depth=0):
        rng = self.rng
        if self.bad():
            return self.int_expr(ctx, depth + 1)
        choices = ["cmp", "cmp", "const", "present", "enumcmp", "enumcmp", "flag", "flag"]
        if depth < 3:
            choices += ["and", "or"]
        k = rng.choice(choices)
        if k == "flag":
            r = self.ref(ctx, "bool")
            if r is not None:
                return r
            k = "cmp"
        if k == "present":
            r = self.ref(ctx, "any")
            if r is not None:
                return f"$present({r})"
            k = "const"
        if k == "enumcmp":
            r = self.ref(ctx, "enum")
            if r is not None:
                _kind, t = self.intended
                v = self.enum_value(ctx, t)
                if v is not None:
                    return f"{r} {rng.choice(['==', '!='])} {v}"
            k = "cmp"
        if k == "const":
            return rng.choice(["true", "false"])
        if k == "cmp":
            return f"{self.int_expr(ctx, depth + 1)} {rng.choice(['==', '!=', '<', '<=', '>', '>='])} {self.int_expr(ctx, depth + 1)}"
        op = "&&" if k == "and" else "||"
        return f"({self.bool_expr(ctx, depth + 1)} {op} {self.bool_expr(ctx, depth + 1)})"

    def enum_value(self, ctx, t=None):
        """A value of enum type t (or of any visible enum), qualified as seen from this module."""
        enums = [x for x in ctx["visible_types"] if x[1].kind == "enum" and x[1].values and (t is None or x[1] is t)]
        if self.bad():
            enums = [x for x in ctx["visible_types"] if x[1].kind == "enum" and x[1].values]  # possibly another enum
        if not enums:
            return None
        qual, e = self.rng.choice(enums)
        return f"{qual}{e.name}.{self.name(self.rng.choice(e.values))}"

    # -- type definitions
    def make_enum(self, name):
        rng = self.rng
        vals = []
        lines = [f"enum {name}:"]
        mb = 64
        if rng.random() < 0.3:
            mb = rng.choice([0, 1, 7, 65] if self.bad() else [8, 16, 32, 64])
            lines.append(f"  [maximum_bits: {mb}]")
        if rng.random() < 0.15:
            lines.append(f"  [is_signed: {rng.choice(['true', 'false'])}]")
        if rng.random() < 0.2:
            lines.append("  " + rng.choice(['[(cpp) enum_case: "kCamelCase"]', '[(cpp) enum_case: "SHOUTY_CASE, kCamelCase"]', '[$default (cpp) enum_case: "kCamelCase"]']
                                           if not self.bad() else ['[(cpp) enum_case: "snake_case"]', "[(cpp) enum_case: 7]", '[(java) enum_case: "x"]', "[(java) enum_case: 7]",
                                                                   '[enum_case: "kCamelCase"]', '[(cpp) enum_case: ""]', '[(cpp) enum_case: "kCamelCase,"]']))
        for i in range(rng.randint(1, 4)):
            v = W.shouty(rng, self.used)
            val = str(i + 1)
            if self.bad():
                val = rng.choice(["-1", "256", "18446744073709551616", "true", "1 + true", self.typo(v), (vals[0] if vals else "1") + " + 1"])
            elif rng.random() < 0.2:
                val = f"{i} + {rng.randint(1, 3)} * 1"
            vals.append(v)
            lines.append(f"  {v} = {val}")
        return _Type("enum", name, values=vals, size=1 if mb <= 8 else rng.choice([1, 2])), lines

    def scalar_use(self, ctx, in_bits=False):
        """(type text, size in bytes/bits, kind)"""
        rng = self.rng
        if in_bits:
            k = rng.choice(["UInt", "UInt", "Int", "Flag", "Bcd"])
            w = 1 if k == "Flag" else rng.choice([2, 3, 4, 4, 7, 8]) if k != "Bcd" else rng.choice([4, 8])
            if self.bad():
                w = rng.choice([0, 65, w + 1 if k == "Flag" else 0])
            return k, w, "bool" if k == "Flag" else "int"
        k = rng.choice(["UInt", "UInt", "Int", "Bcd", "Float"] if not self.bad() else ["Uint", "Int32", "Flag", "Nope"])
        size = rng.choice([1, 1, 2, 4, 8])
        if k == "Float":
            size = rng.choice([4, 8] if not self.bad() else [2, 3])
        txt = k
        if rng.random() < 0.3:
            txt += f":{size * 8 if not self.bad() else rng.choice([0, 7, 9, 65, size * 8 + 8])}"
        kind = "float" if k == "Float" else ("int" if size <= 4 else "wide")
        return txt, size, kind

    def type_use(self, ctx):
        """(type text, size in bytes, kind, _Type) of a struct field drawn among scalars, arrays and visible types."""
        rng = self.rng
        vis = ctx["visible_types"]
        r = rng.random()
        if r < 0.4 or not vis:
            txt, size, kind = self.scalar_use(ctx)
            if rng.random() < 0.2:
                n = rng.randint(1, 4)
                if ":" not in txt:
                    txt += f":{size * 8}"
                return f"{txt}[{n if rng.random() < 0.6 else ''}]", size * n, "array", None
            return txt, size, kind, None
        deep = [x for x in vis if x[1].kind == "struct" and any(mk == "agg" for _n, mk, _t in x[1].members)]
        qual, t = rng.choice(deep) if deep and rng.random() < 0.4 else rng.choice(vis)
        txt = qual + self.name(t.name)
        if t.kind == "enum":
            return txt, t.size, "enum", t
        nargs = t.nparams
        if self.bad():
            nargs = max(0, nargs + rng.choice([-1, 1]))
        if nargs:
            args = []
            for i in range(nargs):
                pk = t.param_kinds[i] if i < len(t.param_kinds) else "int"
                if isinstance(pk, tuple) and not self.bad():
                    args.append(self.enum_value(ctx, pk[1]) or "0")
                elif self.bad():
                    args.append(rng.choice(["true", self.enum_value(ctx) or "false", self.ref(ctx, "any") or "true"]))
                else:
                    args.append(self.int_expr(ctx, 2))
            txt += "(" + ", ".join(args) + ")"
        elif t.nparams == 0 and self.bad():
            txt += "(1)"
        size = t.size if not self.bad() else max(0, t.size + rng.choice([-1, 1]))
        if t.fixed and rng.random() < 0.15:
            n = rng.randint(1, 3)
            return f"{txt}[{n if rng.random() < 0.6 else ''}]", size * n, "array", None
        return txt, size, "agg", t

    def make_struct(self, name, ctx_types, kind="struct"):
        rng = self.rng
        params = []  # (name, kind, _Type)
        param_texts = []
        param_kinds = []
        if kind == "struct" and rng.random() < 0.35:
            for _ in range(rng.randint(1, 2)):
                pn = W.snake(rng, self.used)
                enums = [t for t in ctx_types if t[1].kind == "enum"]
                if enums and rng.random() < 0.3:
                    q, e = rng.choice(enums)
                    param_texts.append(f"{pn}: {q}{self.name(e.name)}")
                    param_kinds.append(("enum", e))
                    params.append((pn, "enum", e))
                else:
                    param_texts.append(f"{pn}: {rng.choice(['UInt', 'Int'])}:{rng.choice([4, 8, 16, 32] if not self.bad() else [0, 65, 300])}")
                    param_kinds.append("int")
                    params.append((pn, "int", None))
        lines = [f"{kind} {name}" + ("(" + ", ".join(param_texts) + ")" if params else "") + ":"]
        ctx = {"fields": [], "params": params, "visible_types": ctx_types}
        if kind == "struct" and rng.random() < 0.15:
            lines.append(f'  [$default byte_order: "{rng.choice(["LittleEndian", "BigEndian"] if not self.bad() else ["Middle", "Null"])}"]')
        members = []
        off = 0
        fixed = True
        physical = 0
        for _ in range(rng.randint(1, 7)):
            r = rng.random()
            indent = "  "
            conditional = False
            if r < 0.2 and ctx["fields"]:
                lines.append(f"  if {self.bool_expr(ctx)}:")
                indent = "    "
                conditional = True
            if r > 0.75 and ctx["fields"]:
                # virtual field: an expression, or an alias (possibly of an aggregate or of an earlier alias)
                vn = W.snake(rng, self.used)
                if rng.random() < 0.5:
                    target = self.ref(ctx, "any")
                    vk, vt = self.intended
                    if vk in ("array", "float", "other", "wide") and not self.bad():
                        vk, vt, target = "int", None, self.int_expr(ctx, 1)
                    lines.append(f"{indent}let {vn} = {target}")
                elif rng.random() < 0.7:
                    vk, vt = "int", None
                    lines.append(f"{indent}let {vn} = {self.int_expr(ctx)}")
                else:
                    vk, vt = "bool", None
                    lines.append(f"{indent}let {vn} = {self.bool_expr(ctx)}")
                if vk == "int" and rng.random() < 0.2:
                    lines.append(f"{indent}  [requires: {self.bool_expr(dict(ctx, fields=[('this', 'int', None)], params=[]))}]")
                ctx["fields"].append((vn, vk, vt))
                members.append((vn, vk, vt))
                continue
            if conditional:
                fixed = False
            if kind == "bits":
                if off >= 56:
                    continue
                txt, w, fk = self.scalar_use(ctx, in_bits=True)
                fn = W.snake(rng, self.used)
                lines.append(f"{indent}{off} [+{w}]  {txt}  {fn}")
                ctx["fields"].append((fn, fk, None))
                members.append((fn, fk, None))
                off += max(w, 0)
                physical += 1
                continue
            fn = W.snake(rng, self.used)
            if self.bad() and ctx["fields"]:
                fn = ctx["fields"][0][0]  # duplicate name
            start = str(off) if fixed or physical == 0 else rng.choice(["$next", "$next", str(off)])
            if physical > 0 and rng.random() < 0.25:
                start = "$next"  # always allowed after a physical field
            if self.bad():
                start = rng.choice(["$next" if physical == 0 else "-1", "true", self.ref(ctx, "any") or "-1", "$next + $next"])
            if rng.random() < 0.15:
                # anonymous bits
                nb = rng.choice([1, 2, 4])
                lines.append(f"{indent}{start} [+{nb}]  bits:")
                bit = 0
                for _k in range(rng.randint(1, 3)):
                    txt, w, fk = self.scalar_use(ctx, in_bits=True)
                    if bit + max(w, 0) > nb * 8 and not self.bad():
                        break
                    mn = W.snake(rng, self.used)
                    lines.append(f"{indent}  {bit} [+{w}]  {txt}  {mn}")
                    ctx["fields"].append((mn, fk, None))
                    members.append((mn, fk, None))
                    bit += max(w, 0)
                if bit == 0:
                    lines.append(f"{indent}  0 [+1]  UInt  {W.snake(rng, self.used)}")
                off += nb
                physical += 1
                continue
            txt, size, fk, t = self.type_use(ctx)
            size_txt = str(size)
            if fk == "array" and txt.endswith("[]") and rng.random() < 0.6:
                r2 = self.ref(ctx, "int")
                if r2 is not None and ":8[" in txt:
                    size_txt = r2
                    fixed = False
            if fk == "agg" and t is not None and not t.fixed:
                fixed = False
            if self.bad():
                size_txt = rng.choice(["0", "-1", str(size + 1), "true", "18446744073709551616", self.int_expr(ctx, 2), "$next", "$next + 1"])
            abbrev = ""
            if rng.random() < 0.1 and fn[:2] not in self.abbrevs and fn[:2] not in self.used and len(fn) > 3:
                self.abbrevs.add(fn[:2])
                abbrev = f" ({fn[:2]})"
            lines.append(f"{indent}{start} [+{size_txt}]  {txt}  {fn}{abbrev}")
            if rng.random() < 0.2:
                good = ['[text_output: "Skip"]', '[text_output: "Emit"]']
                if fk in ("int", "wide") and size > 1 or fk == "float":
                    good += ['[byte_order: "BigEndian"]', '[byte_order: "LittleEndian"]']
                if fk == "int":
                    good += ["[requires: this < 100]", "[requires: this != 0 && this <= 7]"]
                attr = rng.choice(good if not self.bad() else ['[byte_order: "Null"]', "[requires: this]", "[requires: 1]", "[fixed_size_in_bits: 8]",
                                                               '[(cpp) namespace: "x"]', '[requires: "no"]', "[is_signed: true]", "[requires: this == 1]\n" + indent + "  [requires: this == 2]"])
                lines.append(f"{indent}  {attr}")
            ctx["fields"].append((fn, fk, t))
            members.append((fn, fk, t))
            if abbrev:
                ctx["fields"].append((fn[:2], fk, t))
            off += size
            physical += 1
        if kind == "bits":
            # a bits type occupies whole bytes when it is used in a struct
            pad = (-off) % 8
            if pad or off == 0:
                lines.append(f"  {off} [+{pad or 8}]  UInt  {W.snake(rng, self.used)}")
                off += pad or 8
        elif physical == 0:
            lines.append(f"  0 [+1]  UInt  {W.snake(rng, self.used)}")
            off = 1
        # a chain of aliases, each reaching through the previous one (a misspelt link anywhere in it)
        aggs = [f for f in ctx["fields"] if f[1] == "agg" and f[2] is not None and f[2].members]
        if aggs and rng.random() < 0.7:
            deep = [f for f in aggs if any(mk == "agg" for _n, mk, _t in f[2].members)]
            cur_name, _k, cur_t = rng.choice(deep or aggs)
            for _link in range(rng.randint(2, 5)):
                if cur_t is None or not cur_t.members:
                    break
                mname, mk, mt = rng.choice([x for x in cur_t.members if x[1] == "agg" and x[2] is not None and x[2].members]
                                           or [x for x in cur_t.members if x[1] in ("int", "bool", "enum", "agg")] or cur_t.members)
                vn = W.snake(rng, self.used)
                first = _link == 0
                lines.append(f"  let {vn} = {cur_name}.{(self.typo(mname) if self.bad_root() else mname) if first else self.name(mname)}")
                ctx["fields"].append((vn, mk, mt))
                members.append((vn, mk, mt))
                if mk != "agg":
                    break
                cur_name, cur_t = vn, mt
        if rng.random() < 0.1:
            lines.insert(1, f"  [requires: {self.bool_expr(ctx)}]")
        return _Type(kind, name, nparams=len(params), members=members, size=max(1, off if kind == "struct" else off // 8),
                     param_kinds=param_kinds, fixed=fixed), lines


def semantic_soup(rng):
    """(files, entry, tags): 1-3 modules, mostly right, wrong at a few drawn sites."""
    import random as _random

    # first pass without flaws, to learn how many decision sites this module has
    state = rng.getstate()
    probe = _Soup(_random.Random(), set())
    probe.rng.setstate(state)
    _soup_files(probe, probe.rng)
    n_flaws = rng.choice([0, 1, 1, 1, 2, 2, 3, 5])
    sites = set(rng.sample(range(1, probe.site + 1), min(n_flaws, probe.site)))
    if n_flaws and probe.root_sites and rng.random() < 0.5:
        sites.add(rng.choice(probe.root_sites))  # break the root of a chain: everything downstream must cope
    s = _Soup(_random.Random(), sites)
    s.rng.setstate(state)
    files = _soup_files(s, s.rng)
    return files, "m.emb", ["semantic_soup", f"flaws_{len(sites)}"]


def _soup_files(s, rng):
    nlibs = rng.choice([0, 1, 1, 2])
    files = {}
    lib_types = []  # (file name, alias, [types])
    for i in range(nlibs):
        fname = f"lib{i}.emb"
        alias = f"l{i}"
        head = []
        vis = []
        if i > 0 and rng.random() < 0.5:
            head.append(f'import "lib{i - 1}.emb" as prev')
            vis += [("prev.", t) for t in lib_types[i - 1][2]]
        head.append(W._hdr(rng).rstrip("\n"))
        body, types = _soup_types(s, rng, vis, rng.randint(2, 9))
        # pad so that definitions sit on lines that do not exist in a short importing file
        pad = ["", "# " + "-" * rng.randint(3, 40)] * rng.randint(0, 12)
        files[fname] = "\n".join(head + pad + body) + "\n"
        lib_types.append((fname, alias, types))
    head = []
    vis = []
    for fname, alias, types in lib_types:
        if rng.random() < 0.85:
            head.append(f'import "{fname}" as {alias}')
            if rng.random() < 0.8:  # otherwise imported but unused
                vis += [(alias + ".", t) for t in types]
    if s.bad(2):
        head.append('import "lib_missing.emb" as gone')
    head.append(W._hdr(rng).rstrip("\n"))
    if rng.random() < 0.2:
        head.append(rng.choice(['[expected_back_ends: "cpp"]', '[expected_back_ends: "cpp, java"]'] if not s.bad()
                               else ["[expected_back_ends: 5]", '[expected_back_ends: ""]', "[expected_back_ends: true]", '[(java) package: "x"]',
                                     '[expected_back_ends: "java"]\n[(cpp) namespace: "a::b"]', '[$default byte_order: 3]', '[byte_order: "BigEndian"]']))
    body, _types = _soup_types(s, rng, vis, rng.randint(1, 4))
    files["m.emb"] = "\n".join(head + body) + "\n"
    return files


def _soup_types(s, rng, imported, n):
    lines = []
    types = []
    vis = list(imported)
    for _ in range(n):
        r = rng.random()
        name = W.camel(rng, s.used)
        if r < 0.25:
            t, ls = s.make_enum(name)
        elif r < 0.4:
            t, ls = s.make_struct(name, vis, kind="bits")
        else:
            t, ls = s.make_struct(name, vis)
        types.append(t)
        vis.append(("", t))
        lines += ls + [""]
    return lines, types


def valid_import_graph(rng):
    """A valid project of 2-5 files: diamond imports, an unused import, a parameterised type and an
    enum used across files, aliases of imported aggregates."""
    used = []
    n = rng.randint(2, 4)
    files = {}
    info = []
    for i in range(n):
        e = W.camel(rng, used)
        sname = W.camel(rng, used)
        pname = W.camel(rng, used)
        v1, v2 = W.shouty(rng, used), W.shouty(rng, used)
        imports = []
        body_extra = ""
        if i > 0:
            for j in range(i):
                if rng.random() < 0.6:
                    imports.append((j, f"dep{j}"))
        text = "".join(f'import "dir{j}/f{j}.emb" as {a}\n' for j, a in imports) + W._hdr(rng)
        text += f"enum {e}:\n  [maximum_bits: 8]\n  {v1} = {rng.randint(0, 3)}\n  {v2} = {rng.randint(4, 9)}\n"
        text += f"struct {pname}(limit: UInt:8, mode: {e}):\n  [requires: value <= limit]\n  0 [+1]  UInt  value\n"
        text += f"  if mode == {e}.{v2}:\n    1 [+2]  UInt  extra\n  let doubled = value * 2\n"
        text += f"struct {sname}:\n  0 [+1]  {e}  kind\n  1 [+1]  UInt  count\n  2 [+3]  {pname}(200, {e}.{v2})  inner\n"
        text += "  let inner_value = inner.value\n  let inner_alias = inner\n  let through = inner_alias.doubled\n"
        off = 5
        for j, a in imports:
            if rng.random() < 0.75:  # otherwise the import stays unused
                je, js, jp, jv, jsize = info[j]
                text += f"  if kind == {e}.{v1}:\n    {off} [+{jsize}]  {a}.{js}  far{j}\n"
                off += jsize
                text += f"  {off} [+3]  {a}.{jp}(count, {a}.{je}.{jv})  par{j}\n"
                off += 3
                text += f"  let far{j}_through = par{j}.doubled + {rng.randint(1, 9)}\n"
        files[f"dir{i}/f{i}.emb"] = text
        info.append((e, sname, pname, v2, off))
    last = n - 1
    main = "".join(f'import "dir{j}/f{j}.emb" as m{j}\n' for j in range(n) if rng.random() < 0.8 or j == last) + W._hdr(rng)
    main += f"struct Top:\n  0 [+{info[last][4]}]  m{last}.{info[last][1]}  body\n  let k = body.kind\n"
    files["m.emb"] = main
    return files, "m.emb", ["valid", "imports", "import_graph"]


# ---------------------------------------------------------------------------
# random derivations from the real grammar (compiler/front_end/module_ir.PRODUCTIONS)

_GRAMMAR = {}


def _grammar():
    """{nonterminal: [rhs tuples]}, and the minimal derivation depth of every symbol."""
    from simlib import core

    if core.REPO in _GRAMMAR:
        return _GRAMMAR[core.REPO]
    import sys

    if core.REPO not in sys.path:
        sys.path.insert(0, core.REPO)
    from compiler.front_end import module_ir

    prods = {}
    for p in module_ir.PRODUCTIONS:
        prods.setdefault(p.lhs, []).append(tuple(p.rhs))
    depth = {}
    changed = True
    while changed:
        changed = False
        for lhs, alts in prods.items():
            best = None
            for rhs in alts:
                if all((s not in prods) or (s in depth) for s in rhs):
                    d = 1 + max([depth[s] for s in rhs if s in prods] or [0])
                    best = d if best is None else min(best, d)
            if best is not None and depth.get(lhs) != best:
                depth[lhs] = best
                changed = True
    _GRAMMAR[core.REPO] = (prods, depth)
    return _GRAMMAR[core.REPO]


_SNAKE = ["a", "b", "c", "x", "y", "len", "kind", "cpp", "byte_order", "requires", "text_output", "namespace", "this"]
_CAMEL = ["Foo", "Bar", "Baz", "UInt", "Int", "Flag", "Bcd", "Float", "Kind"]
_SHOUTY = ["AA", "BB", "CC", "LITTLE"]


def _terminal_text(rng, sym):
    if sym.startswith('"') and sym.endswith('"'):
        return sym[1:-1].replace("\\n", "\n")
    if sym == "SnakeWord":
        return rng.choice(_SNAKE)
    if sym == "CamelWord":
        return rng.choice(_CAMEL)
    if sym == "ShoutyWord":
        return rng.choice(_SHOUTY)
    if sym == "Number":
        return rng.choice(["0", "1", "2", "4", "8", "16", "0x10", "0b101", "1_000", "255", "18446744073709551615", "18446744073709551616"])
    if sym == "String":
        return rng.choice(['"LittleEndian"', '"BigEndian"', '"Null"', '"x"', '"a::b"', '"Skip"', '""', '"kCamelCase"'] + ['"lib.emb"'] * 6)
    if sym == "BooleanConstant":
        return rng.choice(["true", "false"])
    if sym == "Comment":
        return rng.choice(["# c", "#", "# [x: 1]"])
    if sym == "Documentation":
        return rng.choice(["-- doc", "--", "-- more  doc"])
    return sym  # Indent / Dedent are handled by the renderer


def grammar_derivation(rng):
    """(files, entry, tags): one module that is a random derivation of the real grammar, rendered back
    to text: every syntactic form the parser accepts, with names from small pools so that some resolve."""
    prods, depth = _grammar()
    budget = [rng.choice([60, 120, 250, 400])]  # expansions before only the shortest alternatives are taken
    out = []

    def expand(sym, d):
        if sym not in prods:
            out.append(sym)
            return
        alts = prods[sym]
        budget[0] -= 1
        if budget[0] <= 0 or d > 28:
            m = min(1 + max([depth[s] for s in rhs if s in prods] or [0]) for rhs in alts)
            alts = [rhs for rhs in alts if 1 + max([depth[s] for s in rhs if s in prods] or [0]) == m]
        rhs = rng.choice(alts)
        for s in rhs:
            expand(s, d + 1)

    expand("module", 0)
    lines, cur, indent = [], [], 0
    for sym in out:
        if sym == "Indent":
            indent += 1
        elif sym == "Dedent":
            indent = max(0, indent - 1)
        elif sym == '"\\n"':
            lines.append("  " * indent_at_line_start[0] + " ".join(cur) if cur else "")
            cur = []
        else:
            if not cur:
                indent_at_line_start = [indent]
            cur.append(_terminal_text(rng, sym))
    if cur:
        lines.append("  " * indent + " ".join(cur))
    text = "\n".join(lines[:300]) + "\n"
    files = {"m.emb": text}
    if "lib.emb" in text:
        files["lib.emb"] = '[$default byte_order: "LittleEndian"]\nstruct Foo:\n  0 [+1]  UInt  a\nenum Kind:\n  AA = 1\n'
    return files, "m.emb", ["grammar_derivation"]
