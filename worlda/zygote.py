"""Fork server ("zygote") and compiler worker for World A.

Started as:  PYTHONHASHSEED=<h> python zygote.py <repo> <socket path>

The zygote imports the emboss compiler from <repo> once, then forks one worker
per accepted connection.  A worker is a long-lived compiler process: it keeps
every piece of process-global compiler state (parse cache, anonymous-name
counter, memoised parsers) between requests, exactly like a persistent build
worker would.  Requests and responses strictly alternate, so nothing depends on
timing.  Closing the connection ends (crashes) the worker.

Only public entry points are used: the three command-line programs are run with
runpy under a patched sys.argv; library mode uses glue.parse_emboss_file,
header_generator.generate_header, IrDataSerializer and error.format_errors.
"""

import ctypes
import io
import json
import os
import runpy
import select
import signal
import socket
import struct
import sys
import time
import traceback
import warnings


def send_msg(sock, obj):
    data = json.dumps(obj).encode("utf-8", "surrogatepass")
    sock.sendall(struct.pack(">I", len(data)) + data)


def recv_exact(sock, n):
    buf = b""
    while len(buf) < n:
        chunk = sock.recv(n - len(buf))
        if not chunk:
            return None
        buf += chunk
    return buf


def recv_msg(sock):
    head = recv_exact(sock, 4)
    if head is None:
        return None
    (n,) = struct.unpack(">I", head)
    body = recv_exact(sock, n)
    if body is None:
        return None
    return json.loads(body.decode("utf-8", "surrogatepass"))


# ---------------------------------------------------------------------------
# worker side


class _FdCapture:
    """Redirects file descriptors 1 and 2 (and sys.stdout/err) into files."""

    def __init__(self, out_path, err_path):
        self.out_path, self.err_path = out_path, err_path

    def __enter__(self):
        sys.stdout.flush()
        sys.stderr.flush()
        self.saved = (os.dup(1), os.dup(2))
        self.fo = os.open(self.out_path, os.O_WRONLY | os.O_CREAT | os.O_TRUNC, 0o644)
        self.fe = os.open(self.err_path, os.O_WRONLY | os.O_CREAT | os.O_TRUNC, 0o644)
        os.dup2(self.fo, 1)
        os.dup2(self.fe, 2)
        self.old = (sys.stdout, sys.stderr)
        sys.stdout = io.TextIOWrapper(os.fdopen(os.dup(1), "wb"), encoding="utf-8", errors="surrogateescape")
        sys.stderr = io.TextIOWrapper(os.fdopen(os.dup(2), "wb"), encoding="utf-8", errors="surrogateescape")
        return self

    def __exit__(self, *exc):
        try:
            sys.stdout.flush()
            sys.stderr.flush()
        except Exception:  # pylint:disable=broad-except
            pass
        sys.stdout.close()
        sys.stderr.close()
        sys.stdout, sys.stderr = self.old
        os.dup2(self.saved[0], 1)
        os.dup2(self.saved[1], 2)
        for fd in (self.saved[0], self.saved[1], self.fo, self.fe):
            os.close(fd)
        return False


def _read_file(path):
    with open(path, "rb") as f:
        return f.read().decode("utf-8", "surrogateescape")


_PROGRAMS = {
    "embossc": ("path", "embossc"),
    "front": ("module", "compiler.front_end.emboss_front_end"),
    "back": ("module", "compiler.back_end.cpp.emboss_codegen_cpp"),
    "format": ("path", "emboss-format"),
}


def _innermost_repo_frame(tb, repo):
    frames = traceback.extract_tb(tb)
    inner = None
    for fr in frames:
        if fr.filename.startswith(repo):
            inner = fr
    if inner is None:
        return None
    return [os.path.relpath(inner.filename, repo), inner.name]


def do_cli(req, repo, io_dir, counter):
    kind, target = _PROGRAMS[req["prog"]]
    out_path = os.path.join(io_dir, f"{counter}.out")
    err_path = os.path.join(io_dir, f"{counter}.err")
    old_argv = sys.argv
    old_cwd = os.getcwd()
    old_path = list(sys.path)
    status, exc, tb_text, frame = None, None, None, None
    t0 = time.perf_counter()
    try:
        os.chdir(req["cwd"])
        with _FdCapture(out_path, err_path):
            try:
                if kind == "path":
                    prog_path = os.path.join(repo, target)
                    sys.argv = [prog_path] + list(req["argv"])
                    runpy.run_path(prog_path, run_name="__main__")
                else:
                    sys.argv = [target] + list(req["argv"])
                    runpy.run_module(target, run_name="__main__", alter_sys=False)
                status = 0
            except SystemExit as e:
                code = e.code
                if code is None:
                    status = 0
                elif isinstance(code, int):
                    status = code
                else:
                    print(code, file=sys.stderr)
                    status = 1
            except BaseException as e:  # pylint:disable=broad-except
                exc = type(e).__name__
                tb_text = traceback.format_exc()
                frame = _innermost_repo_frame(e.__traceback__, repo)
    finally:
        sys.argv = old_argv
        sys.path[:] = old_path
        os.chdir(old_cwd)
    resp = {
        "exit": status,
        "exc": exc,
        "tb": tb_text,
        "frame": frame,
        "stdout": _read_file(out_path),
        "stderr": _read_file(err_path),
        "wall": time.perf_counter() - t0,
    }
    os.unlink(out_path)
    os.unlink(err_path)
    return resp


def _msg_record(m):
    loc = m.location
    return {
        # a message whose file is not even a string names no known file (C16)
        "file": m.source_file if isinstance(m.source_file, str) else f"<{type(m.source_file).__name__} object, not a file name>",
        "line": loc.start.line,
        "col": loc.start.column,
        "eline": loc.end.line,
        "ecol": loc.end.column,
        "synthetic": bool(loc.is_synthetic),
        "severity": m.severity,
        "message": m.message,
    }


def do_lib(req, repo):
    """Library-mode compilation through the documented file_reader seam."""
    from compiler.back_end.cpp import header_generator
    from compiler.front_end import glue
    from compiler.util import error
    from compiler.util import ir_data
    from compiler.util import ir_data_utils

    files = dict(req["files"])
    read_errors = dict(req.get("read_errors", {}))
    races = list(req.get("races", []))
    reads = []
    returned = {}

    def file_reader(name):
        k = len(reads)
        for race in races:
            if race["at_read"] == k:
                if race.get("text") is None:
                    files.pop(race["file"], None)
                else:
                    files[race["file"]] = race["text"]
        reads.append(name)
        if name in read_errors:
            return None, list(read_errors[name])
        if name in files:
            returned[name] = files[name]
            return files[name], None
        return None, [f"[Errno 2] No such file or directory: '{name}'"]

    resp = {"exc": None, "tb": None, "frame": None, "stage": None}
    t0 = time.perf_counter()
    stage = "front_end"
    try:
        ir, _debug, errors = glue.parse_emboss_file(req["entry"], file_reader)
        resp["reads"] = reads
        resp["returned"] = returned
        header = None
        ir_json = None
        if not errors:
            stage = "serialize"
            ir_json = ir_data_utils.IrDataSerializer(ir).to_json()
            if req.get("c18"):
                stage = "deserialize"
                ir2 = ir_data_utils.IrDataSerializer.from_json(ir_data.EmbossIr, ir_json)
                stage = "compare"
                resp["c18_equal"] = bool(ir2 == ir)
                stage = "reserialize"
                json2 = ir_data_utils.IrDataSerializer(ir2).to_json()
                resp["c18_rejson_equal"] = json2 == ir_json
                if json2 != ir_json:
                    resp["c18_rejson"] = json2
                stage = "back_end_reread"
                header2, errors2 = header_generator.generate_header(ir2)
                resp["c18_header_reread"] = header2
                resp["c18_errors_reread"] = [[_msg_record(m) for m in g] for g in (errors2 or [])]
            stage = "back_end"
            header, errors = header_generator.generate_header(ir)
            if errors:
                header = None
        resp["accepted"] = not errors
        resp["ir_json"] = ir_json
        resp["header"] = header
        resp["errors"] = [[_msg_record(m) for m in group] for group in (errors or [])]
        if errors:
            stage = "format_errors_plain"
            resp["rendered_plain"] = error.format_errors(errors, {})
            stage = "format_errors_source"
            sources = dict(returned)
            resp["rendered_source"] = error.format_errors(errors, sources)
            stage = "format_errors_color"
            error.format_errors(errors, sources, use_color=True)
    except BaseException as e:  # pylint:disable=broad-except
        if isinstance(e, (KeyboardInterrupt, SystemExit)) and not isinstance(e, SystemExit):
            raise
        resp["exc"] = type(e).__name__
        resp["tb"] = traceback.format_exc()
        resp["frame"] = _innermost_repo_frame(e.__traceback__, repo)
        resp["stage"] = stage
        resp.setdefault("reads", reads)
        resp.setdefault("returned", returned)
    resp["wall"] = time.perf_counter() - t0
    return resp


def do_backend_json(req, repo):
    """Back end from nothing but JSON text (the durable state)."""
    from compiler.back_end.cpp import header_generator
    from compiler.util import ir_data
    from compiler.util import ir_data_utils

    resp = {"exc": None, "tb": None, "frame": None}
    try:
        ir = ir_data_utils.IrDataSerializer.from_json(ir_data.EmbossIr, req["ir_json"])
        # Re-serialise before the back end runs: generate_header annotates the IR.
        resp["rejson"] = ir_data_utils.IrDataSerializer(ir).to_json()
        header, errors = header_generator.generate_header(ir)
        resp["header"] = header if not errors else None
        resp["errors"] = [[_msg_record(m) for m in g] for g in (errors or [])]
    except BaseException as e:  # pylint:disable=broad-except
        resp["exc"] = type(e).__name__
        resp["tb"] = traceback.format_exc()
        resp["frame"] = _innermost_repo_frame(e.__traceback__, repo)
    return resp


def do_state(repo):
    from compiler.front_end import glue
    from compiler.front_end import module_ir

    counter = getattr(module_ir, "_anonymous_name_counter", None)
    if counter is not None and not isinstance(counter, int):
        # itertools.count: peek without consuming via repr
        try:
            counter = int(repr(counter).split("(")[1].rstrip(")"))
        except Exception:  # pylint:disable=broad-except
            counter = None
    return {
        "cached_modules": len(getattr(glue, "_cached_modules", {})),
        "anon_counter": counter,
        "hashseed": os.environ.get("PYTHONHASHSEED"),
        "pid_is_fresh": None,
    }


def worker_loop(conn, repo, io_dir):
    warnings.filterwarnings("ignore", category=RuntimeWarning, module="runpy")
    os.makedirs(io_dir, exist_ok=True)
    counter = 0
    while True:
        req = recv_msg(conn)
        if req is None:
            break
        counter += 1
        try:
            op = req["op"]
            if op == "cli":
                resp = do_cli(req, repo, io_dir, counter)
            elif op == "lib":
                resp = do_lib(req, repo)
            elif op == "backend_json":
                resp = do_backend_json(req, repo)
            elif op == "state":
                resp = do_state(repo)
            elif op == "ping":
                resp = {"pong": True, "hashseed": os.environ.get("PYTHONHASHSEED")}
            else:
                resp = {"harness_error": f"unknown op {op}"}
        except BaseException:  # pylint:disable=broad-except
            resp = {"harness_error": traceback.format_exc()}
        try:
            data = json.dumps(resp)
        except (TypeError, ValueError):
            resp = {"harness_error": "response not serialisable: " + traceback.format_exc()}
        send_msg(conn, resp)
    os._exit(0)


# ---------------------------------------------------------------------------
# zygote side


def main(argv):
    repo, sock_path = argv[1], argv[2]
    sys.path.insert(0, repo)
    # Die with the parent.
    try:
        libc = ctypes.CDLL("libc.so.6", use_errno=True)
        libc.prctl(1, signal.SIGKILL)  # PR_SET_PDEATHSIG
    except Exception:  # pylint:disable=broad-except
        pass
    # Import (not run) everything the workers will need, so a fork is cheap.
    # pylint:disable=unused-import,import-outside-toplevel
    from compiler.back_end.cpp import header_generator
    from compiler.front_end import glue
    from compiler.util import error
    from compiler.util import ir_data
    from compiler.util import ir_data_utils

    if os.environ.get("VERIF_ZYGOTE_PREWARM", "1") == "1":
        # Build the (deterministic, input-independent) parser tables once in the
        # zygote: nothing has been parsed yet, so a fork is still a process that
        # has never compiled anything.  See DESIGN.md section 3.7.
        from compiler.front_end import parser as _parser

        _parser.module_parser()
    import gc

    gc.collect()
    gc.freeze()
    signal.signal(signal.SIGCHLD, signal.SIG_IGN)
    if os.path.exists(sock_path):
        os.unlink(sock_path)
    srv = socket.socket(socket.AF_UNIX, socket.SOCK_STREAM)
    srv.bind(sock_path)
    srv.listen(256)
    with open(sock_path + ".ready", "w") as f:
        f.write(str(os.getpid()))
    n = 0
    while True:
        r, _, _ = select.select([srv, sys.stdin], [], [])
        if sys.stdin in r:
            if not sys.stdin.buffer.read(1):
                break
        if srv in r:
            conn, _ = srv.accept()
            n += 1
            hello = recv_msg(conn)
            io_dir = (hello or {}).get("io_dir") or os.path.dirname(sock_path)
            pid = os.fork()
            if pid == 0:
                srv.close()
                try:
                    libc.prctl(1, signal.SIGKILL)
                except Exception:  # pylint:disable=broad-except
                    pass
                signal.signal(signal.SIGCHLD, signal.SIG_DFL)
                send_msg(conn, {"worker": True, "pid_seq": n, "pid": os.getpid()})
                worker_loop(conn, repo, os.path.join(io_dir, f"w{os.getpid()}"))
                os._exit(0)
            conn.close()
    os._exit(0)


if __name__ == "__main__":
    main(sys.argv)
