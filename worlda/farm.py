"""World A: the build farm.  A seeded scheduler owns a source tree on a tmpfs,
a set of long-lived compiler worker processes (forks of per-hash-seed zygotes)
and a stream of build requests; it injects disk faults between operations and
checks the C16/C17/C18 invariants after every build.

Operation lists are generated up front from the PRNG (they do not depend on
what the compiler answers), fully materialised (texts, hash seeds, directory
orders), and executed by `execute`, which is also what replay and ddmin use.
"""

import json
import os
import re
import shutil
import socket
import struct
import subprocess
import time

from simlib import core
from worlda import workload
from worlda import zygote as zproto

# Termination cap of one compiler job, in seconds of *CPU time of the worker process* (typical
# jobs: 0.01-0.3 s).  Wall-clock time is not used for the verdict: on an overloaded machine a
# healthy job can take arbitrarily long.  A job that gets no result within HARD_WALL_S of wall
# time without having burnt the CPU cap is a harness problem (exit 2), never a violation.
JOB_TIMEOUT_S = 60
HARD_WALL_S = 1800


# ---------------------------------------------------------------------------
# zygotes (started by the check's main process)


class ZygotePool:
    def __init__(self, hash_seeds, scratch, repo=None):
        self.repo = repo or core.REPO
        self.scratch = scratch
        self.procs = {}
        self.socks = {}
        os.makedirs(os.path.join(scratch, "zy"), exist_ok=True)
        seeds = list(hash_seeds)
        # The first start populates the bytecode cache; the rest start in parallel.
        self._start(seeds[0])
        self._wait(seeds[0])
        for h in seeds[1:]:
            self._start(h)
        for h in seeds[1:]:
            self._wait(h)

    def _start(self, h):
        sock = os.path.join(self.scratch, "zy", f"z{h}.sock")
        env = dict(os.environ)
        env["PYTHONHASHSEED"] = str(h)
        env["PYTHONPYCACHEPREFIX"] = "/dev/shm/emboss-verif-pycache"
        env["PYTHONUTF8"] = "1"
        env.pop("PYTHONPATH", None)
        env.pop("PYTHONDONTWRITEBYTECODE", None)
        p = subprocess.Popen(
            [core.PYTHON, os.path.join(core.VERIF_DIR, "worlda", "zygote.py"), self.repo, sock],
            stdin=subprocess.PIPE,
            stdout=subprocess.DEVNULL,
            stderr=open(os.path.join(self.scratch, "zy", f"z{h}.err"), "w"),
            env=env,
            cwd=self.scratch,
        )
        self.procs[h] = p
        self.socks[h] = sock

    def _wait(self, h):
        deadline = time.monotonic() + 120
        ready = self.socks[h] + ".ready"
        while not os.path.exists(ready):
            if self.procs[h].poll() is not None:
                err = open(os.path.join(self.scratch, "zy", f"z{h}.err")).read()
                raise core.HarnessError(f"zygote {h} died: {err[-2000:]}")
            if time.monotonic() > deadline:
                raise core.HarnessError(f"zygote {h} did not start")
            time.sleep(0.02)

    def close(self):
        for p in self.procs.values():
            try:
                p.stdin.close()
            except Exception:  # pylint:disable=broad-except
                pass
        for p in self.procs.values():
            try:
                p.wait(timeout=5)
            except Exception:  # pylint:disable=broad-except
                p.kill()


class WorkerDied(Exception):
    pass


class WorkerTimeout(Exception):
    pass


def _cpu_seconds(pid):
    try:
        with open(f"/proc/{pid}/stat") as f:
            rest = f.read().rsplit(")", 1)[1].split()
        return (int(rest[11]) + int(rest[12])) / os.sysconf("SC_CLK_TCK")
    except (OSError, ValueError, IndexError):
        return None


class Worker:
    """Client handle of one compiler worker process."""

    def __init__(self, sock_path, io_dir, hashseed):
        self.hashseed = hashseed
        self.jobs = 0
        self.sock = socket.socket(socket.AF_UNIX, socket.SOCK_STREAM)
        self.sock.settimeout(HARD_WALL_S)
        self.sock.connect(sock_path)
        zproto.send_msg(self.sock, {"io_dir": io_dir})
        hello = zproto.recv_msg(self.sock)
        if not hello or not hello.get("worker"):
            raise core.HarnessError("zygote handshake failed")
        self.pid = hello.get("pid")
        self.sock.settimeout(10)

    def _recv_exact(self, n, cpu0, t0):
        buf = b""
        while len(buf) < n:
            try:
                chunk = self.sock.recv(n - len(buf))
            except socket.timeout:
                cpu = _cpu_seconds(self.pid) if self.pid else None
                if cpu is not None and cpu0 is not None and cpu - cpu0 > JOB_TIMEOUT_S:
                    raise WorkerTimeout()
                if time.monotonic() - t0 > HARD_WALL_S:
                    raise core.HarnessError(f"no answer from a compiler worker within {HARD_WALL_S}s of wall time "
                                            f"(cpu used: {None if cpu is None or cpu0 is None else round(cpu - cpu0, 1)}s): machine overloaded?")
                continue
            if not chunk:
                return None
            buf += chunk
        return buf

    def request(self, obj):
        cpu0 = _cpu_seconds(self.pid) if self.pid else None
        t0 = time.monotonic()
        try:
            zproto.send_msg(self.sock, obj)
            head = self._recv_exact(4, cpu0, t0)
            resp = None
            if head is not None:
                (n,) = struct.unpack(">I", head)
                body = self._recv_exact(n, cpu0, t0)
                if body is not None:
                    resp = json.loads(body.decode("utf-8", "surrogatepass"))
        except WorkerTimeout:
            raise
        except OSError:
            raise WorkerDied()
        if resp is None:
            raise WorkerDied()
        if "harness_error" in resp:
            raise core.HarnessError(resp["harness_error"])
        return resp

    def close(self):
        try:
            self.sock.close()
        except OSError:
            pass


# ---------------------------------------------------------------------------
# operation generation


def _initial_tree(rng, cfg):
    """Returns (tree {relpath: text}, entries [import names], dirs, tags)."""
    tw = cfg["tree_weights"]
    kinds = sorted(tw)
    kind = rng.choices(kinds, weights=[tw[k] for k in kinds])[0]
    tree = {}
    tags = [kind]
    if kind in ("semsoup", "graph", "worldb", "grammar"):
        from worlda import soup
        entries = []
        nproj = rng.randint(1, 2)
        for p in range(nproj):
            if kind == "semsoup":
                files, entry, t = soup.semantic_soup(rng)
            elif kind == "graph":
                files, entry, t = soup.valid_import_graph(rng)
            elif kind == "grammar":
                files, entry, t = soup.grammar_derivation(rng)
            else:
                files, entry, t = workload.worldb_module(rng)
            tags.extend(t)
            d = ["d0", "d1"][p]
            for name, text in files.items():
                if name == entry:
                    name = f"p{p}_{name}"  # entry names are unique across the projects of one tree
                tree[f"{d}/{name}"] = text
            entries.append(f"p{p}_{entry}")
        return tree, entries, ["d0", "d1"][:nproj], tags
    if kind == "corpus":
        corpus = workload.corpus_files()
        names = sorted(corpus)
        for n in names:
            d = "d1" if n.endswith("imported_genfiles.emb") else "d0"
            tree[f"{d}/{n}"] = corpus[n]
        candidates = [n for n in names if n.startswith("testdata/") or n.startswith("project/")]
        entries = rng.sample(candidates, min(len(candidates), rng.randint(2, 5)))
        return tree, entries, ["d0", "d1"], tags
    if kind == "examples":
        ex = workload.error_examples()
        entries = []
        for i in range(rng.randint(2, 6)):
            if not ex:
                break
            tree[f"d0/ex{i}.emb"] = rng.choice(ex)
            entries.append(f"ex{i}.emb")
        if entries:
            return tree, entries, ["d0"], tags
        kind = "catalogue"
    if kind == "soup":
        entries = []
        for i in range(rng.randint(1, 3)):
            tree[f"d0/s{i}.emb"] = rng.choice([workload.token_soup, workload.random_utf8])(rng)
            entries.append(f"s{i}.emb")
        return tree, entries, ["d0"], tags
    # catalogue: one to three projects in separate sub-trees of d0
    entries = []
    nproj = rng.randint(1, 3)
    for p in range(nproj):
        fn = rng.choice(workload.CATALOGUE)
        files, entry, t = fn(rng)
        tags.extend(t)
        # Projects refer to their own files by unprefixed names; keep one project
        # per directory so names do not collide.
        d = ["d0", "d1", "d2"][p]
        entry_names = entry if isinstance(entry, list) else [entry]  # a project may have several entry files
        for name, text in files.items():
            if name in entry_names:
                name = f"p{p}_{name}"  # entry names are unique across the projects of one tree
            tree[f"{d}/{name}"] = text
        for e in entry_names:
            entries.append((d, f"p{p}_{e}"))
    # with one project per dir, every entry is found by searching all dirs; shadowing
    # between projects (same file name in two dirs) is deliberate and legal.
    return tree, [e for _, e in entries], ["d0", "d1", "d2"][:nproj], tags


def _resolve(tree, dirs, unreadable):
    """What each import name resolves to: first hit in dirs order ('.' first)."""
    out = {}
    for d in ["."] + list(dirs):
        prefix = "" if d == "." else d + "/"
        for path in sorted(tree):
            if not path.startswith(prefix):
                continue
            name = path[len(prefix):]
            if path in unreadable:
                continue
            out.setdefault(name, path)
    return out


def gen_ops(rng, cfg):
    """Generates the materialised operation list of one run."""
    ops = []
    tree, entries, dirs, tags = _initial_tree(rng, cfg)
    pristine = dict(tree)
    for path in sorted(tree):
        ops.append({"op": "write", "path": path, "text": tree[path], "why": "initial"})
    hash_seeds = cfg["hash_seeds"]
    nworkers = rng.randint(1, 3)
    workers = []
    for k in range(nworkers):
        h = rng.choice(hash_seeds)
        workers.append(h)
        ops.append({"op": "spawn", "w": k, "hashseed": h})
    # every entry is built once on the pristine tree, before any edit or fault
    for e in entries:
        perm = list(dirs)
        if rng.random() < 0.5:
            rng.shuffle(perm)
        ops.append({"op": "build", "w": rng.randrange(len(workers)), "mode": rng.choices(["embossc", "split", "lib"], weights=cfg["mode_weights"])[0],
                    "entry": e, "dirs": perm, "fresh_oracle": rng.random() < cfg.get("fresh_oracle_rate", 0.2), "w2": rng.randrange(len(workers)),
                    "pristine": True})
    unreadable = {}
    n_events = rng.randint(cfg["events"][0], cfg["events"][1])
    weights = dict(cfg["event_weights"])
    # swarm: knock out a random subset of event kinds for this run
    for k in list(weights):
        if k != "build" and rng.random() < 0.3:
            weights[k] = 0
    kinds = sorted(weights)
    last_build = None
    for _ in range(n_events):
        kind = rng.choices(kinds, weights=[weights[k] for k in kinds])[0]
        files = sorted(tree)
        if kind == "build" or not files:
            entry = rng.choice(entries)
            mode = rng.choices(["embossc", "split", "lib"], weights=cfg["mode_weights"])[0]
            perm = list(dirs)
            rng.shuffle(perm)
            if rng.random() < 0.5:
                perm = list(dirs)
            op = {"op": "build", "w": rng.randrange(len(workers)), "mode": mode, "entry": entry, "dirs": perm,
                  "fresh_oracle": rng.random() < cfg.get("fresh_oracle_rate", 0.2)}
            if mode == "split":
                op["w2"] = rng.randrange(len(workers))
            if mode == "embossc" and rng.random() < cfg.get("cold_rate", 0.0):
                # a true, cold `embossc` process: its own interpreter start-up, address-space layout and hash seed
                op["cold"] = rng.randrange(1, 1 << 16)
            if mode == "lib":
                if rng.random() < cfg["race_rate"] and files:
                    victim = rng.choice(files)
                    r = rng.random()
                    if r < 0.3:
                        new = None
                    elif r < 0.7:
                        new, _ = workload.torn_prefix(rng, tree[victim])
                    else:
                        new, _ = workload.mutate_text(rng, tree[victim], [tree[f] for f in files[:4]])
                    op["races"] = [{"at_read": rng.randint(0, 3), "path": victim, "text": new}]
                if rng.random() < cfg["read_error_rate"] and files:
                    victim = rng.choice(files)
                    err = rng.choice(["[Errno 13] Permission denied", "[Errno 5] Input/output error",
                                      "[Errno 21] Is a directory"])
                    op["read_errors"] = {victim: [f"{err}: '{victim}'"]}
            if last_build is not None and rng.random() < 0.2:
                op = dict(last_build)
                op["repeat"] = True
            ops.append(op)
            last_build = {k: v for k, v in op.items() if k != "repeat"}
        elif kind == "edit":
            path = rng.choice(files)
            nmut = rng.choice([1, 1, 1, 2, 3])
            text = tree[path]
            why = []
            for _m in range(nmut):
                text, d = workload.mutate_text(rng, text, [tree[f] for f in files[:6]])
                why.append(d)
            lines = text.split("\n")
            if len(lines) > 300:
                text = "\n".join(lines[:300]) + "\n"
            tree[path] = text
            unreadable.pop(path, None)
            ops.append({"op": "write", "path": path, "text": text, "why": "edit " + "; ".join(why)})
        elif kind == "torn_save":
            path = rng.choice(files)
            full = tree[path]
            text, cut = workload.torn_prefix(rng, full)
            tree[path] = text
            unreadable.pop(path, None)
            ops.append({"op": "write", "path": path, "text": text, "why": f"torn_save cut={cut}/{len(full)}"})
        elif kind == "restore":
            path = rng.choice(files)
            if path in pristine:
                tree[path] = pristine[path]
                unreadable.pop(path, None)
                ops.append({"op": "write", "path": path, "text": pristine[path], "why": "restore"})
        elif kind == "delete":
            path = rng.choice(files)
            del tree[path]
            unreadable.pop(path, None)
            ops.append({"op": "delete", "path": path})
        elif kind == "unreadable":
            path = rng.choice(files)
            how = rng.choice(["dir", "dangling", "loop"])
            unreadable[path] = how
            del tree[path]
            ops.append({"op": "unreadable", "path": path, "how": how})
        elif kind == "duplicate":
            # byte-identical copy of a file in another import directory
            path = rng.choice(files)
            d, _, name = path.partition("/")
            others = [x for x in workload.DIRS if x != d]
            nd = rng.choice(others)
            tree[f"{nd}/{name}"] = tree[path]
            ops.append({"op": "write", "path": f"{nd}/{name}", "text": tree[path], "why": "duplicate"})
            if nd not in dirs:
                dirs = dirs + [nd]
        elif kind == "copy_as":
            # a source file saved under a second name (byte-identical text, different module name); both get built
            e = rng.choice(entries)
            src = [p for p in files if p.split("/", 1)[-1] == e]
            new = e[:-4] + "_copy.emb" if e.endswith(".emb") else e + "_copy"
            if src and new not in entries:
                d = src[0].split("/", 1)[0]
                tree[f"{d}/{new}"] = tree[src[0]]
                ops.append({"op": "write", "path": f"{d}/{new}", "text": tree[src[0]], "why": "copy_as"})
                entries = entries + [new]
                w = rng.randrange(len(workers))
                for ent in (e, new):  # the original and the copy on the same worker, back to back
                    ops.append({"op": "build", "w": w, "mode": rng.choices(["embossc", "split", "lib"], weights=cfg["mode_weights"])[0],
                                "entry": ent, "dirs": list(dirs), "fresh_oracle": False, "w2": w})
        elif kind == "crash":
            k = rng.randrange(len(workers))
            h = rng.choice(hash_seeds) if rng.random() < 0.5 else workers[k]
            workers[k] = h
            ops.append({"op": "crash", "w": k, "hashseed": h})
        elif kind == "spawn" and len(workers) < 5:
            h = rng.choice(hash_seeds)
            workers.append(h)
            ops.append({"op": "spawn", "w": len(workers) - 1, "hashseed": h})
    # Always end with a build so that trailing edits are exercised.
    if ops[-1]["op"] != "build":
        ops.append({"op": "build", "w": 0, "mode": rng.choice(["embossc", "lib"]),
                    "entry": rng.choice(entries), "dirs": list(dirs)})
    return ops, tags


# ---------------------------------------------------------------------------
# execution


_IMPORT_RE = re.compile(r'^[ \t]*import[ \t]+"([^"\n]*)"', re.M)
_CLI_MSG_RE = re.compile(r"^(.+?):(\d+):(\d+): (error|warning|note): ")
# reserved anonymous identifiers, whatever their exact spelling: a word containing "anonymous" and its number
_ANON_RE = re.compile(r"([A-Za-z_]*[Aa]nonymous[A-Za-z_]*?)(\d+)")


def renumber_anonymous(text):
    if text is None:
        return None
    mapping = {}

    def sub(m):
        n = m.group(2)
        if n not in mapping:
            mapping[n] = str(len(mapping) + 1)
        return m.group(1) + mapping[n]

    return _ANON_RE.sub(sub, text)


class Farm:
    """Executes an operation list against real worker processes and a real tmpfs tree."""

    def __init__(self, zygote_socks, rundir, props, canonical_seed=0):
        self.socks = {int(k): v for k, v in zygote_socks.items()}
        self.rundir = rundir
        self.root = os.path.join(rundir, "tree")
        self.io_dir = os.path.join(rundir, "io")
        os.makedirs(self.root, exist_ok=True)
        os.makedirs(self.io_dir, exist_ok=True)
        self.props = set(props)
        self.canonical_seed = canonical_seed
        self.workers = {}
        self.tree = {}  # relpath -> text currently on disk
        self.unreadable = {}
        self.log = []
        self.failures = []
        self.counters = {}
        self.canon = {}
        self.oracle_worker = None
        self.build_no = 0
        self.states = set()

    # -- bookkeeping
    def count(self, key, n=1):
        self.counters[key] = self.counters.get(key, 0) + n

    def fail(self, prop, klass, signature, detail, op_index, facts=None):
        if prop not in self.props:
            self.count(f"observed_not_checked.{prop}.{klass}")
            return
        self.failures.append({
            "property": prop, "world": "A", "class": klass, "signature": signature,
            "detail": detail, "op_index": op_index, "facts": facts or {},
        })

    # -- disk
    def _abs(self, rel):
        return os.path.join(self.root, rel)

    def _clear_path(self, rel):
        p = self._abs(rel)
        if os.path.islink(p) or os.path.isfile(p):
            os.unlink(p)
        elif os.path.isdir(p):
            shutil.rmtree(p)

    def op_write(self, op):
        rel = op["path"]
        self._clear_path(rel)
        os.makedirs(os.path.dirname(self._abs(rel)), exist_ok=True)
        with open(self._abs(rel), "w", encoding="utf-8", newline="") as f:
            f.write(op["text"])
        self.tree[rel] = op["text"]
        self.unreadable.pop(rel, None)
        why = op.get("why", "")
        if why.startswith("torn_save"):
            self.count("fault.torn_save")
        elif why.startswith("edit"):
            self.count("event.edit")
        elif why == "restore":
            self.count("event.restore")
        elif why == "duplicate":
            self.count("fault.duplicate_in_other_dir")
        elif why == "copy_as":
            self.count("event.same_text_under_second_name")

    def op_delete(self, op):
        self._clear_path(op["path"])
        self.tree.pop(op["path"], None)
        self.unreadable.pop(op["path"], None)
        self.count("fault.delete")

    def op_unreadable(self, op):
        rel = op["path"]
        self._clear_path(rel)
        os.makedirs(os.path.dirname(self._abs(rel)), exist_ok=True)
        if op["how"] == "dir":
            os.makedirs(self._abs(rel))
        elif op["how"] == "dangling":
            os.symlink("/nonexistent/emboss-verif-dangling", self._abs(rel))
        else:
            os.symlink(os.path.basename(rel), self._abs(rel))
        self.tree.pop(rel, None)
        self.unreadable[rel] = op["how"]
        self.count("fault.unreadable_" + op["how"])

    # -- workers
    def _spawn(self, k, h):
        if k in self.workers:
            self.workers[k].close()
        if h not in self.socks:
            h = sorted(self.socks)[h % len(self.socks)]
        self.workers[k] = Worker(self.socks[h], self.io_dir, h)

    def fresh_worker(self, h=None):
        h = self.canonical_seed if h is None else h
        if h not in self.socks:
            h = sorted(self.socks)[0]
        return Worker(self.socks[h], self.io_dir, h)

    # -- jobs
    def _resolved_texts(self, dirs):
        res = _resolve(self.tree, dirs, self.unreadable)
        # open() in text mode translates newlines; the in-memory reader must hand
        # the compiler what a real read of the same file would.
        return {name: self.tree[path].replace("\r\n", "\n").replace("\r", "\n")
                for name, path in sorted(res.items())}

    def _job_key(self, op):
        texts = self._resolved_texts(op["dirs"])
        key = {"entry": op["entry"], "texts": {n: core.text_digest(t) for n, t in texts.items()}}
        if op["mode"] == "lib":
            key["races"] = op.get("races")
            key["read_errors"] = op.get("read_errors")
        # unreadable paths influence diagnostics (error strings list directories tried)
        key["unreadable"] = sorted(self.unreadable.items())
        return key

    def _cli_args(self, op, outdir):
        args = ["--color-output", "never"]
        for d in op["dirs"]:
            args += ["-I", d]
        return args

    def run_cli_family(self, worker, op, worker2=None, as_split=False):
        """Runs the job through the command-line programs; returns a result dict."""
        self.build_no += 1
        outdir = f"out{self.build_no}"
        os.makedirs(os.path.join(self.rundir, outdir), exist_ok=True)
        outabs = os.path.join(self.rundir, outdir)
        res = {"family": "cli", "exc": None, "header": None, "ir_json": None, "stdout": "", "stderr": ""}
        try:
            if not as_split:
                r = worker.request({"op": "cli", "prog": "embossc", "cwd": self.root,
                                    "argv": self._cli_args(op, outabs) + ["--output-path", outabs, "--output-file", "out.h", op["entry"]]})
                worker.jobs += 1
                res.update(exit=r["exit"], exc=r["exc"], tb=r["tb"], frame=r["frame"], stdout=r["stdout"], stderr=r["stderr"])
                hp = os.path.join(outabs, "out.h")
                if os.path.exists(hp):
                    res["header"] = open(hp, encoding="utf-8").read()
            else:
                irp = os.path.join(outabs, "ir.json")
                r = worker.request({"op": "cli", "prog": "front", "cwd": self.root,
                                    "argv": self._cli_args(op, outabs) + ["--output-file", irp, op["entry"]]})
                worker.jobs += 1
                res.update(exit=r["exit"], exc=r["exc"], tb=r["tb"], frame=r["frame"], stdout=r["stdout"], stderr=r["stderr"])
                if r["exc"] is None and r["exit"] == 0 and os.path.exists(irp):
                    res["ir_json"] = open(irp, encoding="utf-8").read()
                    w2 = worker2 or worker
                    hp = os.path.join(outabs, "out.h")
                    r2 = w2.request({"op": "cli", "prog": "back", "cwd": self.root,
                                     "argv": ["--color-output", "never", "--input-file", irp, "--output-file", hp]})
                    w2.jobs += 1
                    res["stdout"] += r2["stdout"]
                    res["stderr"] += r2["stderr"]
                    res["exit"] = r2["exit"]
                    if r2["exc"] is not None:
                        res.update(exc=r2["exc"], tb=r2["tb"], frame=r2["frame"])
                    if os.path.exists(hp):
                        res["header"] = open(hp, encoding="utf-8").read()
        finally:
            shutil.rmtree(outabs, ignore_errors=True)
        return res

    def run_cold(self, op):
        """Runs the job as a real `embossc` command-line process (no zygote, no warm state)."""
        self.build_no += 1
        outabs = os.path.join(self.rundir, f"out{self.build_no}")
        os.makedirs(outabs, exist_ok=True)
        env = dict(os.environ, PYTHONHASHSEED=str(op["cold"]), PYTHONPYCACHEPREFIX="/dev/shm/emboss-verif-pycache", PYTHONUTF8="1")
        env.pop("PYTHONPATH", None)
        res = {"family": "cli", "exc": None, "header": None, "ir_json": None, "stdout": "", "stderr": "", "how": "cold"}
        try:
            try:
                r = subprocess.run([core.PYTHON, os.path.join(core.REPO, "embossc")] + self._cli_args(op, outabs)
                                   + ["--output-path", outabs, "--output-file", "out.h", op["entry"]],
                                   cwd=self.root, env=env, capture_output=True, text=True, timeout=HARD_WALL_S)
            except subprocess.TimeoutExpired:
                raise core.HarnessError("cold embossc process did not finish within the hard wall limit")
            res.update(exit=r.returncode, stdout=r.stdout, stderr=r.stderr)
            if "Traceback (most recent call last)" in r.stderr:
                last = r.stderr.strip().splitlines()[-1]
                res.update(exc=last.split(":")[0].strip() or "Exception", tb=r.stderr[-4000:], frame=None)
            hp = os.path.join(outabs, "out.h")
            if os.path.exists(hp):
                res["header"] = open(hp, encoding="utf-8").read()
        finally:
            shutil.rmtree(outabs, ignore_errors=True)
        self.count("probe.cold_cli_sample")
        return res

    def run_lib(self, worker, op, c18=False):
        texts = self._resolved_texts(op["dirs"])
        races = []
        for race in op.get("races") or []:
            # the racing mutation hits a path; express it on import names
            for d in ["."] + list(op["dirs"]):
                prefix = "" if d == "." else d + "/"
                if race["path"].startswith(prefix):
                    races.append({"at_read": race["at_read"], "file": race["path"][len(prefix):], "text": race["text"]})
                    break
        read_errors = {}
        for path, errs in (op.get("read_errors") or {}).items():
            for d in list(op["dirs"]):
                if path.startswith(d + "/"):
                    read_errors[path[len(d) + 1:]] = errs
        r = worker.request({"op": "lib", "entry": op["entry"], "files": texts, "races": races,
                            "read_errors": read_errors, "c18": c18})
        worker.jobs += 1
        r["family"] = "lib"
        if races:
            self.count("fault.race_between_reads_armed")
            if len(r.get("reads", [])) > min(x["at_read"] for x in races):
                self.count("fault.race_between_reads_fired")
        if read_errors and any(n in r.get("reads", []) for n in read_errors):
            self.count("fault.read_error_fired")
        return r

    # -- the three oracles

    def check_c16_cli(self, res, op_index, op):
        if res.get("exc"):
            self.fail("C16", "uncaught_exception", ["cli", res["exc"], res.get("frame")],
                      {"traceback": res.get("tb"), "entry": op["entry"]}, op_index,
                      {"exc": res["exc"], "frame": res.get("frame")})
            return
        if res.get("exit") not in (0, 1):
            self.fail("C16", "bad_exit_status", ["cli", res.get("exit")], {"stderr": res["stderr"][-2000:]}, op_index)
        if "Traceback (most recent call last)" in res["stderr"]:
            self.fail("C16", "traceback_on_stderr", ["cli"], {"stderr": res["stderr"][-3000:]}, op_index)
        if res.get("exit") == 1 and not res["stderr"].strip():
            self.fail("C16", "rejected_without_message", ["cli"], {}, op_index)
        if res.get("exit") == 0 and res.get("header") is None and res.get("ir_json") is None:
            self.fail("C16", "accepted_without_output", ["cli"], {}, op_index)
        if "[compiler bug]" in res["stderr"]:
            self.fail("C16", "compiler_bug_location", ["cli"], {"stderr": res["stderr"][-2000:]}, op_index,
                      {"synthetic_location": True})
        # every "file:line:col: severity: ..." line names a file of this job and a position inside it
        texts = None
        for line in res["stderr"].splitlines():
            m = _CLI_MSG_RE.match(line)
            if not m:
                continue
            f, ln, col = m.group(1), int(m.group(2)), int(m.group(3))
            if f.startswith("["):
                continue  # [prelude]; [compiler bug] is reported above
            if texts is None:
                texts = self._resolved_texts(op["dirs"])
            self.count("cli_message_positions_checked")
            if f not in texts:
                if f in self.unreadable or any(f == p.split("/", 1)[-1] for p in self.unreadable):
                    continue  # a file that could not be read: the compiler reports 1:1
                if ln == 1 and col == 1:
                    continue
                self.fail("C16", "message_names_unknown_file", ["cli", m.group(4)], {"line": line, "known": sorted(texts)[:20]}, op_index)
                continue
            lines = texts[f].splitlines()
            ok = (1 <= ln <= len(lines) and 1 <= col <= len(lines[ln - 1]) + 1) or (ln == len(lines) + 1 and col == 1)
            if not ok:
                self.fail("C16", "position_outside_file", ["cli", "zero" if ln == 0 else ("past_end" if ln > len(lines) else "column")],
                          {"line": line, "file_lines": len(lines)}, op_index,
                          {"line_zero": ln == 0, "past_last_line": ln > len(lines)})

    def check_c16_lib(self, r, op_index, op):
        if r.get("exc"):
            self.fail("C16", "uncaught_exception", ["lib", r.get("stage"), r["exc"], r.get("frame")],
                      {"traceback": r.get("tb"), "entry": op["entry"]}, op_index,
                      {"exc": r["exc"], "frame": r.get("frame"), "stage": r.get("stage")})
            return
        if r["accepted"]:
            if not r.get("header") or not r.get("ir_json"):
                self.fail("C16", "accepted_without_output", ["lib"], {}, op_index)
            return
        errors = r["errors"]
        if not errors or any(not g for g in errors):
            self.fail("C16", "empty_error_list", ["lib"], {"errors": errors}, op_index)
            return
        asked = set(r.get("reads", []))
        for group in errors:
            for m in group:
                f = m["file"]
                if f not in asked and f != "":
                    self.fail("C16", "message_names_unknown_file", ["lib", m["severity"]], {"message": m, "asked": sorted(asked)}, op_index)
                    continue
                if m["synthetic"]:
                    self.fail("C16", "compiler_bug_location", ["lib"], {"message": m}, op_index, {"synthetic_location": True})
                    continue
                if f == "" or f not in r.get("returned", {}):
                    # prelude, or a file that could not be read (compiler reports 1:1)
                    if f != "" and not (m["line"] >= 1 and m["col"] >= 1):
                        self.fail("C16", "position_outside_file", ["lib", "unread"], {"message": m}, op_index,
                                  {"line": m["line"], "col": m["col"]})
                    continue
                text = r["returned"][f]
                # Lines as the compiler itself counts them (str.splitlines, in the
                # tokenizer and in the renderer alike); the position just past the
                # last line is the end-of-input position and is accepted.
                lines = text.splitlines()
                ok = (1 <= m["line"] <= len(lines) and 1 <= m["col"] <= len(lines[m["line"] - 1]) + 1) or (
                    m["line"] == len(lines) + 1 and m["col"] == 1)
                if not ok:
                    self.fail("C16", "position_outside_file", ["lib", "zero" if m["line"] == 0 else ("past_end" if m["line"] > len(lines) else "column")],
                              {"message": m, "file_lines": len(lines)}, op_index,
                              {"line_zero": m["line"] == 0, "past_last_line": m["line"] > len(lines)})
                if not m["message"].strip():
                    self.fail("C16", "empty_message", ["lib"], {"message": m}, op_index)

    def _has_unresolved_import(self, op):
        texts = self._resolved_texts(op["dirs"])
        todo, seen = [op["entry"]], set()
        while todo:
            name = todo.pop()
            if name in seen:
                continue
            seen.add(name)
            if name not in texts:
                return True
            for m in _IMPORT_RE.finditer(texts[name]):
                todo.append(m.group(1))
        return False

    def canonical(self, op, family):
        key = core.digest_of([self._job_key(op), family, op["dirs"] if family == "cli" else None])
        # directory order is part of the key only when it can legitimately matter
        base = core.digest_of([self._job_key(op), family])
        if base in self.canon and not self.canon[base].get("dir_sensitive"):
            self.count("probe.canonical_memo_hit")
            return self.canon[base]
        if key in self.canon:
            return self.canon[key]
        # Process creation is the scarce resource in this sandbox (about 150 forks
        # per second for the whole machine), so only a drawn fraction of the oracle
        # jobs gets a brand-new process; the others run on the run's oracle worker
        # (hash seed 0, fresh at its first job, its own history afterwards).
        fresh = op.get("fresh_oracle", False) or self.oracle_worker is None
        if fresh and self.oracle_worker is not None:
            w = self.fresh_worker()
            own = True
            self.count("canonical_runs_in_brand_new_process")
        else:
            if self.oracle_worker is None:
                self.oracle_worker = self.fresh_worker()
                self.count("canonical_runs_in_brand_new_process")
            w = self.oracle_worker
            own = False
        oracle_warm = w.jobs > 0
        try:
            if family == "cli":
                res = self.run_cli_family(w, op, as_split=True)
            else:
                res = self.run_lib(w, op, c18=True)
        finally:
            if own:
                w.close()
        res["oracle_warm"] = oracle_warm
        self.count("canonical_runs")
        # Diagnostics about a file that cannot be found list the directories tried, in the order given,
        # by design; whether a job has such a file is decided from the tree, never from message wording.
        res["dir_sensitive"] = self._has_unresolved_import(op)
        self.canon[key if res["dir_sensitive"] else base] = res
        return res

    def compare_c17(self, res, canon, op_index, op, warm, what):
        warm = warm or canon.get("oracle_warm", False)

        def norm(x):
            return renumber_anonymous(x) if warm else x

        if bool(res.get("exc")) or bool(canon.get("exc")):
            if res["family"] != canon["family"]:
                return  # the two families call different entry points; a crash is C16's subject
            if (res.get("exc") or None) != (canon.get("exc") or None):
                self.fail("C17", "outcome_differs", [what, "exception", res.get("exc"), canon.get("exc")],
                          {"job_tb": res.get("tb"), "canonical_tb": canon.get("tb")}, op_index)
            return
        fields = ["header", "ir_json"]
        if res["family"] == canon["family"] == "cli":
            fields += ["exit", "stdout", "stderr"]
        if res["family"] == canon["family"] == "lib":
            fields += ["accepted", "rendered_plain", "errors"]
        for f in fields:
            a, b = res.get(f), canon.get(f)
            if a is None and f in ("ir_json", "header") and res["family"] != canon["family"]:
                continue
            if f in ("ir_json",) and (a is None or b is None):
                continue  # embossc does not write the IR
            if isinstance(a, str) or isinstance(b, str):
                a, b = norm(a), norm(b)
            elif f == "errors":
                a, b = norm(json.dumps(a)), norm(json.dumps(b))
            if a != b:
                kind = _diff_kind(a, b)
                self.fail("C17", "output_differs", [what, f, kind],
                          {"field": f, "job": _clip(a), "canonical": _clip(b), "diff": _first_diff(a, b),
                           "entry": op["entry"], "mode": op["mode"], "dirs": op["dirs"]}, op_index,
                          {"field": f, "what": what, "diff_kind": kind})
                return

    def check_c18(self, op, op_index, res_lib, res_cli):
        if res_lib is not None and res_lib.get("accepted") and not res_lib.get("exc"):
            if res_lib.get("c18_equal") is False:
                self.fail("C18", "reread_ir_not_equal", ["from_json(to_json(ir)) != ir"], {"entry": op["entry"]}, op_index)
            if res_lib.get("c18_rejson_equal") is False:
                self.fail("C18", "rejson_differs", ["to_json(from_json(j)) != j"],
                          {"diff": _first_diff(res_lib.get("ir_json"), res_lib.get("c18_rejson"))}, op_index)
            if "c18_header_reread" in res_lib and res_lib["c18_header_reread"] != res_lib.get("header"):
                self.fail("C18", "header_from_reread_differs", ["in_process"],
                          {"diff": _first_diff(res_lib.get("header"), res_lib.get("c18_header_reread"))}, op_index)
            # the other process: only the JSON text crosses the boundary
            others = [k for k in sorted(self.workers)]
            if others and res_lib.get("ir_json"):
                k = others[(op_index + op.get("w", 0)) % len(others)]
                w = self.workers[k]
                rb = w.request({"op": "backend_json", "ir_json": res_lib["ir_json"]})
                w.jobs += 1
                self.count("probe.split_pipeline_other_process")
                if w.hashseed != self.canonical_seed:
                    self.count("probe.split_pipeline_across_hash_seeds")
                if rb.get("exc"):
                    self.fail("C18", "backend_crashes_on_reread_ir", [rb["exc"], rb.get("frame")], {"tb": rb.get("tb")}, op_index)
                else:
                    if rb.get("header") != res_lib.get("header"):
                        self.fail("C18", "header_from_reread_differs", ["other_process"],
                                  {"diff": _first_diff(res_lib.get("header"), rb.get("header"))}, op_index)
                    if rb.get("rejson") != res_lib.get("ir_json"):
                        self.fail("C18", "rejson_differs", ["other_process"],
                                  {"diff": _first_diff(res_lib.get("ir_json"), rb.get("rejson"))}, op_index)
        if res_cli is not None and res_lib is not None and not res_cli.get("exc") and not res_lib.get("exc"):
            # The two front ends ran in different processes with different histories:
            # reserved anonymous identifiers are compared up to their numbering.
            rn = renumber_anonymous
            if res_cli.get("header") is not None and res_lib.get("header") is not None:
                if rn(res_cli["header"]) != rn(res_lib["header"]):
                    self.fail("C18", "split_header_differs_from_in_process", [res_cli.get("how", "cli")],
                              {"diff": _first_diff(res_lib["header"], res_cli["header"])}, op_index)
            if res_cli.get("ir_json") is not None and res_lib.get("ir_json") is not None:
                if rn(res_cli["ir_json"]) != rn(res_lib["ir_json"]):
                    self.fail("C18", "split_ir_differs_from_in_process", [], {"diff": _first_diff(res_lib["ir_json"], res_cli["ir_json"])}, op_index)
            if (res_cli.get("header") is None) != (res_lib.get("header") is None):
                self.fail("C18", "acceptance_differs", [], {"cli_stderr": res_cli.get("stderr", "")[-1500:], "lib_errors": res_lib.get("rendered_plain")}, op_index)

    # -- main loop
    def execute(self, ops):
        try:
            for i, op in enumerate(ops):
                kind = op["op"]
                if kind == "write":
                    self.op_write(op)
                    self.log.append([i, "write", op["path"], core.text_digest(op["text"]), op.get("why", "")])
                elif kind == "delete":
                    self.op_delete(op)
                    self.log.append([i, "delete", op["path"]])
                elif kind == "unreadable":
                    self.op_unreadable(op)
                    self.log.append([i, "unreadable", op["path"], op["how"]])
                elif kind == "spawn":
                    self._spawn(op["w"], op["hashseed"])
                    self.log.append([i, "spawn", op["w"], op["hashseed"]])
                elif kind == "crash":
                    if op["w"] in self.workers:
                        self.count("fault.worker_crash")
                        if self.workers[op["w"]].jobs:
                            self.count("probe.worker_restarted_after_work")
                    self._spawn(op["w"], op["hashseed"])
                    self.log.append([i, "crash", op["w"], op["hashseed"]])
                elif kind == "build":
                    self.do_build(i, op)
        finally:
            for w in self.workers.values():
                w.close()
            if self.oracle_worker is not None:
                self.oracle_worker.close()
        return self

    def do_build(self, i, op):
        k = op["w"]
        if k not in self.workers:
            ks = sorted(self.workers)
            if not ks:
                self._spawn(0, self.canonical_seed)
                ks = [0]
            k = ks[k % len(ks)]
        w = self.workers[k]
        warm = w.jobs > 0
        self.count("builds")
        self.count("builds." + op["mode"])
        if warm:
            self.count("probe.build_on_warm_worker")
        if op.get("repeat"):
            self.count("probe.repeated_job")
        if list(op["dirs"]) != sorted(op["dirs"]):
            self.count("fault.dir_permutation")
        res = None
        try:
            if op["mode"] == "lib":
                res = self.run_lib(w, op, c18="C18" in self.props)
            else:
                w2 = None
                if op["mode"] == "split":
                    k2 = op.get("w2", k)
                    ks = sorted(self.workers)
                    w2 = self.workers[ks[k2 % len(ks)]]
                    if w2 is not w:
                        self.count("probe.split_front_and_back_on_different_workers")
                        if w2.hashseed != w.hashseed:
                            self.count("probe.split_pipeline_across_hash_seeds")
                if op.get("cold"):
                    res = self.run_cold(op)
                    warm = False
                else:
                    res = self.run_cli_family(w, op, worker2=w2, as_split=op["mode"] == "split")
                    res["how"] = op["mode"]
        except WorkerTimeout:
            self.fail("C16", "does_not_terminate", [op["mode"]], {"entry": op["entry"], "cap_s": JOB_TIMEOUT_S}, i)
            self._spawn(k, w.hashseed)
            self.log.append([i, "build", op["mode"], op["entry"], "TIMEOUT"])
            return
        except WorkerDied:
            self.fail("C16", "worker_process_died", [op["mode"]], {"entry": op["entry"]}, i)
            self._spawn(k, w.hashseed)
            self.log.append([i, "build", op["mode"], op["entry"], "DIED"])
            return
        # probes on the outcome
        blob = (res.get("stderr") or "") + (res.get("rendered_plain") or "")
        accepted = (res.get("header") is not None) if res["family"] == "cli" else bool(res.get("accepted"))
        self.count("outcome.accepted" if accepted else ("outcome.crashed" if res.get("exc") else "outcome.rejected"))
        if self._has_unresolved_import(op):
            self.count("probe.import_missing_or_unreadable")
        if blob.count("error:") >= 2:
            self.count("probe.two_or_more_error_groups")
        if "expected " in blob and blob.count('",') + blob.count(", ") >= 2 and "Found" in blob:
            self.count("probe.syntax_error_with_several_expected_tokens")
        if accepted and "emboss_reserved_anonymous_field_1" in (res.get("ir_json") or res.get("header") or "") and warm:
            self.count("probe.anonymous_names_on_warm_worker")
        m = _ANON_RE.findall(res.get("header") or "")
        if m:
            mx = max(int(x[1]) for x in m)
            if mx >= 10:
                self.count("probe.anon_counter_crossed_10")
            if mx >= 100:
                self.count("probe.anon_counter_crossed_100")
        out_digest = core.digest_of([res.get("exit"), res.get("exc"), core.text_digest(res.get("header") or ""),
                                     core.text_digest(res.get("ir_json") or ""), core.text_digest(blob)])[:12]
        self.states.add((core.digest_of(self._job_key(op))[:12], op["mode"], w.hashseed, min(w.jobs, 3)))
        self.log.append([i, "build", op["mode"], op["entry"], op["dirs"], "acc" if accepted else "rej", out_digest])

        # C16
        if res["family"] == "cli":
            self.check_c16_cli(res, i, op)
        else:
            self.check_c16_lib(res, i, op)

        need_canon = "C17" in self.props or "C18" in self.props
        if not need_canon:
            return
        try:
            self._compare_with_canonical(i, op, res, warm)
        except (WorkerTimeout, WorkerDied) as e:
            # an oracle or back-end job hung or died: C16's subject, and the processes involved are replaced
            self.fail("C16", "does_not_terminate" if isinstance(e, WorkerTimeout) else "worker_process_died",
                      ["oracle_or_split_job"], {"entry": op["entry"]}, i)
            if self.oracle_worker is not None:
                self.oracle_worker.close()
                self.oracle_worker = None
            for k2 in sorted(self.workers):
                self._spawn(k2, self.workers[k2].hashseed)

    def _compare_with_canonical(self, i, op, res, warm):
        canon = self.canonical(op, res["family"])
        if "C17" in self.props:
            self.compare_c17(res, canon, i, op, warm, f"{op['mode']}_vs_fresh_seed{self.canonical_seed}")
        other_family = "lib" if res["family"] == "cli" else "cli"
        if op["mode"] == "lib" and (op.get("races") or op.get("read_errors")):
            return  # the in-memory reader script has no on-disk counterpart
        canon_other = self.canonical(op, other_family)
        if "C17" in self.props:
            # one process or two; in-memory reader or real files: same artefacts
            self.compare_c17(res, canon_other, i, op, True, f"{op['mode']}_vs_fresh_{other_family}")
        if "C18" in self.props:
            lib_res = res if res["family"] == "lib" else canon_other
            cli_res = res if res["family"] == "cli" else canon_other
            self.check_c18(op, i, lib_res, cli_res)


def _clip(x, n=1500):
    if isinstance(x, str) and len(x) > n:
        return x[:n] + f"...[{len(x)} chars]"
    return x


def _diff_kind(a, b):
    """Structural class of a difference between two outputs (never message wording)."""
    if not isinstance(a, str) or not isinstance(b, str):
        return "presence" if (a is None) != (b is None) else "value"
    la, lb = a.splitlines(), b.splitlines()
    if sorted(la) == sorted(lb):
        return "same_lines_in_different_order"
    if len(la) == len(lb):
        tok = re.compile(r"[,\s]+")
        if all(sorted(tok.split(x)) == sorted(tok.split(y)) for x, y in zip(la, lb)):
            return "same_tokens_in_different_order_within_lines"
    if sorted(re.split(r"[,\s]+", a)) == sorted(re.split(r"[,\s]+", b)):
        return "same_tokens_in_different_order"
    return "content"


def _first_diff(a, b):
    if not isinstance(a, str) or not isinstance(b, str):
        return {"a": _clip(a, 300), "b": _clip(b, 300)}
    n = min(len(a), len(b))
    i = 0
    while i < n and a[i] == b[i]:
        i += 1
    return {"at": i, "a": a[max(0, i - 80): i + 120], "b": b[max(0, i - 80): i + 120]}


# ---------------------------------------------------------------------------
# one simulated run (called in a pool process)


def run_ops(ops, zygote_socks, props, rundir):
    os.makedirs(rundir, exist_ok=True)
    farm = Farm(zygote_socks, rundir, props)
    try:
        farm.execute(ops)
    finally:
        shutil.rmtree(rundir, ignore_errors=True)
    return farm


def run_one(task):
    prop, seed, index, cfg = task["prop"], task["seed"], task["index"], task["cfg"]
    rng = core.rng_for(prop + ":A", seed, index)
    ops, tags = gen_ops(rng, cfg)
    rundir = os.path.join(task["scratch"], f"run{index}")
    farm = run_ops(ops, task["zygotes"], task["props"], rundir)
    log_digest = core.digest_of(farm.log)
    out = {
        "index": index,
        "digest": log_digest,
        "tags": tags,
        "n_ops": len(ops),
        "counters": farm.counters,
        "failures": farm.failures,
        "states": sorted(core.digest_of(list(s))[:12] for s in farm.states),
        "nontrivial": bool(
            any(k.startswith("fault.") for k in farm.counters)
            and farm.counters.get("probe.build_on_warm_worker", 0) > 0
        ),
    }
    if farm.failures or task.get("keep_ops") or index < 2:
        out["ops"] = ops
    if index < 2:
        out["log"] = farm.log
    return out
