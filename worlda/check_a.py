"""Checks C16, C17, C18: seeded search over build-farm histories (World A)."""

import json
import os
import subprocess
import sys
import time

from simlib import core
from worlda import farm

HASH_SEEDS = {"quick": [0, 1, 2, 3, 5, 8, 13, 21], "thorough": [0, 1, 2, 3, 4, 5, 6, 7, 8, 9, 11, 13, 17, 19, 21, 23,
                                                                 29, 31, 37, 41, 43, 47, 53, 59, 61, 67, 71, 73, 79, 83, 89, 97]}


def config(prop, tier):
    cfg = {
        "hash_seeds": HASH_SEEDS[tier],
        "events": (12, 30) if tier == "quick" else (20, 45),
        "race_rate": 0.15,
        "read_error_rate": 0.1,
        "cold_rate": 0.04 if tier == "quick" else 0.08,
    }
    if prop == "C17":
        cfg["tree_weights"] = {"catalogue": 6, "corpus": 2, "examples": 2, "soup": 0.5, "semsoup": 3, "graph": 2, "worldb": 1.5, "grammar": 0.5}
        cfg["event_weights"] = {"build": 10, "edit": 3, "torn_save": 1, "restore": 1, "delete": 0.5,
                                "unreadable": 0.5, "duplicate": 1.5, "crash": 1, "spawn": 0.5, "copy_as": 1}
        cfg["mode_weights"] = [4, 3, 3]
        cfg["runs"] = 84 if tier == "quick" else 400
    elif prop == "C18":
        cfg["tree_weights"] = {"catalogue": 3, "corpus": 5, "examples": 0.5, "soup": 0, "semsoup": 1.5, "graph": 3, "worldb": 3, "grammar": 0.3}
        cfg["event_weights"] = {"build": 10, "edit": 1.5, "torn_save": 0.3, "restore": 1.5, "delete": 0.2,
                                "unreadable": 0.2, "duplicate": 0.5, "crash": 1.5, "spawn": 1, "copy_as": 0.5}
        cfg["mode_weights"] = [2, 5, 3]
        cfg["runs"] = 54 if tier == "quick" else 260
    else:  # C16
        cfg["tree_weights"] = {"catalogue": 7, "corpus": 3, "examples": 1.5, "soup": 1.5, "semsoup": 6, "graph": 0.5, "worldb": 0.5, "grammar": 3}
        cfg["events"] = (8, 20) if tier == "quick" else (12, 36)
        cfg["event_weights"] = {"build": 8, "edit": 7, "torn_save": 2.5, "restore": 0.7, "delete": 1,
                                "unreadable": 1, "duplicate": 0.5, "crash": 0.7, "spawn": 0.3, "copy_as": 0.3}
        cfg["mode_weights"] = [3, 2, 5]
        cfg["race_rate"] = 0.3
        cfg["read_error_rate"] = 0.2
        cfg["runs"] = 280 if tier == "quick" else 1000
    only = os.environ.get("VERIF_TREE")  # exploration aid: restrict the workload to one tree kind
    if only:
        cfg["tree_weights"] = {k: (1 if k == only else 0) for k in cfg["tree_weights"]}
    return cfg


def wall_cap(tier):
    return 150 if tier == "quick" else 600


def signature_of(f):
    return core.digest_of([f["property"], f["class"], f["signature"]])[:12]


def _same_failure(failures, want):
    for f in failures:
        if f["property"] == want["property"] and f["class"] == want["class"] and f["signature"] == want["signature"]:
            return f
    return None


def _needed_seeds(ops):
    seeds = {0}
    for op in ops:
        if op["op"] in ("spawn", "crash"):
            seeds.add(int(op["hashseed"]))
    return sorted(seeds)


def execute_ops(ops, props, zygotes, scratch, tag):
    rundir = os.path.join(scratch, f"exec-{tag}-{os.getpid()}")
    fm = farm.run_ops(ops, zygotes, props, rundir)
    return fm


def _shrink_texts(ops, still_fails, budget):
    """Line-level ddmin of the text of each written file (bounded)."""
    tests = [0]
    for idx in range(len(ops) - 1, -1, -1):
        op = ops[idx]
        if op["op"] != "write" or tests[0] >= budget:
            continue
        lines = op["text"].split("\n")
        if len(lines) <= 2:
            continue

        def fails_with(sub, idx=idx, op=op):
            tests[0] += 1
            cand = list(ops)
            cand[idx] = dict(op, text="\n".join(sub))
            return still_fails(cand)

        new = core.ddmin(lines, fails_with, max_tests=max(4, min(150, budget - tests[0])))
        if len(new) < len(lines):
            ops[idx] = dict(op, text="\n".join(new))
    return ops


def minimise_task(task):
    """Pool task: ddmin the op list of one failure bucket (runs in a pool process)."""
    want, ops, props, zygotes, scratch, budget = (task[k] for k in ("want", "ops", "props", "zygotes", "scratch", "budget"))
    ops = ops[: want["op_index"] + 1]
    counter = [0]

    def still_fails(cand):
        counter[0] += 1
        try:
            fm = execute_ops(cand, props, zygotes, scratch, f"min{task['bucket']}-{counter[0]}")
        except core.HarnessError:
            return False
        return _same_failure(fm.failures, want) is not None

    if not still_fails(ops):
        return {"ops": ops, "reproduced": False, "tests": counter[0]}
    small = core.ddmin(ops, still_fails, max_tests=budget)
    small = _shrink_texts(small, still_fails, budget * 8)
    fm = execute_ops(small, props, zygotes, scratch, f"min{task['bucket']}-final")
    f = _same_failure(fm.failures, want)
    return {"ops": small, "reproduced": f is not None, "failure": f, "tests": counter[0]}


def replay(args):
    with open(args.replay) as f:
        body = json.load(f)
    prop = body["property"]
    scratch = core.scratch_root()
    pool = farm.ZygotePool(_needed_seeds(body["ops"]), scratch)
    try:
        fm = execute_ops(body["ops"], [prop], pool.socks, scratch, "replay")
    finally:
        pool.close()
    got = _same_failure(fm.failures, body["failure"])
    if got is None:
        print(f"REPLAY-NOT-REPRODUCED property={prop} replay={args.replay}")
        for f in fm.failures[:5]:
            print("  other failure:", f["class"], f["signature"])
        return 3
    if not args.quiet_confirm:
        print(json.dumps({"class": got["class"], "signature": got["signature"], "detail": got["detail"]}, indent=1)[:6000])
        print(f"VIOLATION property={prop} replay={args.replay}")
    return 1


def main(args):
    if args.replay:
        return replay(args)
    prop, tier = args.what, args.tier
    seed = core.env_seed()
    cfg = config(prop, tier)
    runs = args.runs or cfg["runs"]
    t0 = time.monotonic()
    scratch = core.scratch_root()
    print(f"[{prop}] tier={tier} VERIF_SEED={seed} runs={runs} workers={args.workers} repo={core.REPO}", flush=True)
    pool = farm.ZygotePool(cfg["hash_seeds"], scratch)
    core.install_signal_cleanup(lambda: (pool.close(), core.remove_scratch()))
    try:
        tasks = [{"prop": prop, "seed": seed, "index": i, "cfg": cfg, "zygotes": pool.socks,
                  "props": [prop], "scratch": scratch} for i in range(runs)]
        results, harness_errors, skipped = core.run_pool(
            farm.run_one, tasks, args.workers, per_task_timeout_s=900, wall_cap_s=wall_cap(tier))
        done = [r for r in results if r is not None]
        print(f"[{prop}] search phase done: {len(done)} runs in {time.monotonic() - t0:.1f}s", flush=True)
        if args.digests_only:
            for r in done:
                print(f"DIGEST {r['index']} {r['digest']} failures={len(r['failures'])}")
            return 0
        # bucket failures by signature, first occurrence (in run order) represents the bucket
        buckets = {}
        for r in done:
            for f in r["failures"]:
                f["run_index"] = r["index"]
                f["run_seed"] = seed
                sig = signature_of(f)
                if sig not in buckets:
                    buckets[sig] = {"failure": f, "ops": r["ops"], "count": 0}
                buckets[sig]["count"] += 1
        known = core.load_known_findings()
        violations = []
        known_lines = {}
        to_minimise = []
        for sig in sorted(buckets, key=lambda s: (buckets[s]["failure"]["run_index"], s)):
            b = buckets[sig]
            kid = core.match_known(b["failure"], known)
            if kid:
                known_lines.setdefault(kid, [0, b["failure"]])
                known_lines[kid][0] += b["count"]
                continue
            to_minimise.append((sig, b))
        to_minimise = to_minimise[:20]
        budget = 40 if tier == "quick" else 120
        mtasks = [{"want": b["failure"], "ops": b["ops"], "props": [prop], "zygotes": pool.socks,
                   "scratch": scratch, "budget": budget, "bucket": sig} for sig, b in to_minimise]
        mres, merrs, _ = core.run_pool(minimise_task, mtasks, args.workers, per_task_timeout_s=1200)
        harness_errors += merrs
        print(f"[{prop}] minimisation done at {time.monotonic() - t0:.1f}s ({len(mtasks)} buckets)", flush=True)
        nondeterministic = 0
        for (sig, b), mr in zip(to_minimise, mres):
            if mr is None:
                continue
            if not mr["reproduced"]:
                nondeterministic += 1
                print(f"HARNESS-NONDETERMINISM property={prop} class={b['failure']['class']} signature={b['failure']['signature']} run={b['failure']['run_index']}")
                continue
            body = {
                "property": prop, "world": "A", "verif_seed": seed, "run_index": b["failure"]["run_index"],
                "tier": tier, "ops": mr["ops"], "failure": mr["failure"],
                "occurrences_in_this_invocation": b["count"], "ddmin_tests": mr["tests"],
                "tool_versions": core.tool_versions(),
                "how_to_replay": f"/venv/bin/python bin/check.py {prop} --replay <this file>",
            }
            path = core.write_replay(prop, b["failure"], body)
            # confirmation replay in a fresh process
            rc = subprocess.run([sys.executable, os.path.join(core.VERIF_DIR, "bin", "check.py"), prop,
                                 "--replay", path, "--quiet-confirm"], capture_output=True, text=True).returncode
            if rc == 1:
                violations.append((path, mr["failure"], b["count"]))
            else:
                nondeterministic += 1
                print(f"HARNESS-NONDETERMINISM property={prop} replay={path} (fresh-process replay did not reproduce)")
    finally:
        pool.close()

    wall = time.monotonic() - t0
    # ---- evidence
    counters = {}
    for r in done:
        for k, v in r["counters"].items():
            counters[k] = counters.get(k, 0) + v
    digests = {}
    for r in done:
        if r["nontrivial"]:
            digests[r["digest"]] = True
    states = set()
    for r in done:
        states.update(r["states"])
    samples = []
    for r in done[:2]:
        samples.append({"run_index": r["index"], "tags": r["tags"], "event_log": r.get("log", [])[:60]})
    faults = {k[6:]: v for k, v in sorted(counters.items()) if k.startswith("fault.")}
    probes = {k[6:]: v for k, v in sorted(counters.items()) if k.startswith("probe.")}
    builds = counters.get("builds", 0)
    coverage = {
        "evaluations": len(done),
        "distinct_nontrivial": len(digests),
        "rule": "one evaluation = one simulated build-farm history (seeded operation list: tree writes, disk faults, "
                "worker spawns/crashes, builds in three pipeline modes) executed against real compiler worker processes; "
                "non-trivial = at least one fault fired and at least one build ran on a worker that had compiled before; "
                "distinct = distinct SHA-256 of the run's event log",
        "samples": samples,
        "builds": builds,
        "builds_by_mode": {k[7:]: v for k, v in sorted(counters.items()) if k.startswith("builds.")},
        "outcomes": {k[8:]: v for k, v in sorted(counters.items()) if k.startswith("outcome.")},
        "canonical_fresh_process_runs": counters.get("canonical_runs", 0),
        "hash_seeds": cfg["hash_seeds"],
        "faults_fired": faults,
        "probes": probes,
        "distinct_states": {"measure": "(job content digest, pipeline mode, worker hash seed, min(worker age,3))", "count": len(states)},
        "runs_per_hour": round(len(done) / wall * 3600),
        "builds_per_hour": round(builds / wall * 3600),
        "seeds": {"VERIF_SEED": seed, "run_indices": [0, len(done) - 1] if done else []},
        "simulated_time": "not applicable: no component of emboss reads a clock or sets a timer; the unit is the simulated step (one operation)",
        "simulated_steps": sum(r["n_ops"] for r in done),
        "runs_skipped_by_wall_cap": skipped,
        "observed_but_not_this_property": {k: v for k, v in sorted(counters.items()) if k.startswith("observed_not_checked.")},
        "real_vs_stub": {
            "real": ["tokenizer, parser and shipped tables, all IR passes, IR (de)serialiser, C++ header generator, "
                     "embossc / emboss_front_end / emboss_codegen_cpp main programs (imported from the working tree, run in real OS processes forked per hash seed)",
                     "the file system the command-line programs read (tmpfs)"],
            "stub": ["the in-memory file_reader used for faults that must land between two reads of one compilation (documented callable seam)",
                     "the build system issuing requests (the seeded scheduler)"],
        },
        "known_findings_printed": sorted(known_lines),
    }
    assumptions = [
        "canonical result of a job = the same job in a fresh fork of the PYTHONHASHSEED=0 zygote",
        "forked workers of one zygote share its address-space layout; different hash seeds use different zygotes",
        "inputs are valid UTF-8 text of at most 300 lines",
    ]
    if not args.no_evidence:
        core.write_evidence(prop, tier, seed, wall, len(violations), coverage, assumptions)

    for kid in sorted(known_lines):
        n, f = known_lines[kid]
        print(f"KNOWN-FINDING: property={prop} {kid} class={f['class']} occurrences={n}")
    for path, f, n in violations:
        print(f"  violation class={f['class']} signature={f['signature']} occurrences={n}")
        print(f"VIOLATION property={prop} replay={path}")
    for e in harness_errors[:10]:
        print("HARNESS-ERROR:", e[-3000:], file=sys.stderr)
    print(f"[{prop}] runs={len(done)} builds={builds} faults={sum(faults.values())} states={len(states)} "
          f"violations={len(violations)} known={len(known_lines)} wall={wall:.1f}s", flush=True)
    if violations:
        return 1
    if harness_errors or nondeterministic or not done:
        return 2
    if len(done) < max(2, runs // 4):
        print("HARNESS-ERROR: fewer than a quarter of the planned runs finished inside the wall cap", file=sys.stderr)
        return 2
    return 0
