"""Workload for World A: source trees, the error catalogue, edit mutations.

Everything is a deterministic function of the random.Random passed in.  No sets
are iterated; dicts are built in a fixed order.
"""

import os
import re

from simlib import core

DIRS = ["d0", "d1", "d2"]


def _read(path):
    with open(path, encoding="utf-8") as f:
        return f.read()


_CORPUS_CACHE = {}


def corpus_files():
    """{import name: text} for the repository's own .emb corpus."""
    repo = core.REPO
    if repo in _CORPUS_CACHE:
        return _CORPUS_CACHE[repo]
    out = {}
    td = os.path.join(repo, "testdata")
    for name in sorted(os.listdir(td)):
        if name.endswith(".emb"):
            out["testdata/" + name] = _read(os.path.join(td, name))
    if "testdata/imported.emb" in out:
        out["testdata/imported_genfiles.emb"] = out["testdata/imported.emb"].replace(
            "emboss::test", "emboss::test::generated"
        )
    proj = os.path.join(td, "import_dir", "project")
    if os.path.isdir(proj):
        for name in sorted(os.listdir(proj)):
            if name.endswith(".emb"):
                out["project/" + name] = _read(os.path.join(proj, name))
    fmt = os.path.join(td, "format")
    if os.path.isdir(fmt):
        for name in sorted(os.listdir(fmt)):
            if name.endswith(".emb"):
                out["format/" + name] = _read(os.path.join(fmt, name))
    _CORPUS_CACHE[repo] = out
    return out


_EXAMPLES_CACHE = {}


def error_examples():
    """The parser error examples, with their $ERR/$ANY markers removed."""
    repo = core.REPO
    if repo in _EXAMPLES_CACHE:
        return _EXAMPLES_CACHE[repo]
    path = os.path.join(repo, "compiler", "front_end", "error_examples")
    out = []
    if os.path.exists(path):
        text = _read(path)
        blocks = re.split(r"\n={80}\n", "\n" + text)
        for block in blocks[1:]:
            parts = re.split(r"\n-{80}\n", block, maxsplit=1)
            if len(parts) != 2:
                continue
            for ex in re.split(r"\n---\n", parts[1]):
                ex = ex.replace("$ERR ", "").replace("$ERR", "")
                ex = ex.replace("$ANY ", "").replace("$ANY", "")
                if ex.strip():
                    out.append(ex.rstrip("\n") + "\n")
    _EXAMPLES_CACHE[repo] = out
    return out


# ---------------------------------------------------------------------------
# names

_WORDS = [
    "alpha", "bravo", "chunk", "delta", "echo", "frame", "gamma", "hotel", "index",
    "jolt", "kilo", "lima", "motor", "nova", "oscar", "papa", "quark", "rate",
    "sigma", "tango", "unit", "vector", "width", "xray", "yoke", "zone",
]


def snake(rng, used=None):
    while True:
        n = rng.choice(_WORDS) + ("_" + rng.choice(_WORDS) if rng.random() < 0.4 else "")
        if rng.random() < 0.3:
            n += str(rng.randint(0, 9))
        if used is None or n not in used:
            if used is not None:
                used.append(n)
            return n


def camel(rng, used=None):
    while True:
        n = rng.choice(_WORDS).capitalize() + rng.choice(_WORDS).capitalize()
        if used is None or n not in used:
            if used is not None:
                used.append(n)
            return n


def shouty(rng, used=None):
    while True:
        n = rng.choice(_WORDS).upper() + "_" + rng.choice(_WORDS).upper()
        if used is None or n not in used:
            if used is not None:
                used.append(n)
            return n


HEADER = '[$default byte_order: "LittleEndian"]\n[(cpp) namespace: "sim::{ns}"]\n'


def _hdr(rng):
    return HEADER.format(ns=rng.choice(_WORDS))


# ---------------------------------------------------------------------------
# error catalogue: each entry returns (files {name: text}, entry name, tags)


def cat_multi_cycle(rng):
    """k independent two-field dependency cycles in one or two structs."""
    k = rng.randint(2, 5)
    used = []
    lines = [_hdr(rng), f"struct {camel(rng)}:"]
    for _ in range(k):
        a, b = snake(rng, used), snake(rng, used)
        lines.append(f"  {b} [+1]  UInt  {a}")
        lines.append(f"  {a} [+1]  UInt  {b}")
    return {"m.emb": "\n".join(lines) + "\n"}, "m.emb", ["two_or_more_cycle_groups"]


def cat_virtual_cycles(rng):
    k = rng.randint(2, 6)
    used = []
    lines = [_hdr(rng), f"struct {camel(rng)}:", "  0 [+1]  UInt  base"]
    for _ in range(k):
        a, b = snake(rng, used), snake(rng, used)
        lines.append(f"  let {a} = {b} + 1")
        lines.append(f"  let {b} = {a} * base")
    return {"m.emb": "\n".join(lines) + "\n"}, "m.emb", ["two_or_more_cycle_groups"]


def cat_import_cycles(rng):
    k = rng.randint(1, 3)
    files = {}
    body = "struct {t}:\n  0 [+1]  UInt  x\n"
    imports_main = []
    for i in range(k):
        a, b = f"cyc{i}a.emb", f"cyc{i}b.emb"
        files[a] = _hdr(rng).replace("\n[", "\n[", 1)
        files[a] = f'import "{b}" as other\n' + _hdr(rng) + body.format(t=camel(rng))
        files[b] = f'import "{a}" as other\n' + _hdr(rng) + body.format(t=camel(rng))
        imports_main.append(f'import "{a}" as c{i}')
    files["m.emb"] = "\n".join(imports_main) + "\n" + _hdr(rng) + body.format(t=camel(rng))
    return files, "m.emb", ["two_or_more_cycle_groups", "import_cycle"]


def cat_ambiguous(rng):
    """A name visible from two inner scopes."""
    t = camel(rng)
    inner = camel(rng)
    text = (
        _hdr(rng)
        + f"struct {t}:\n"
        + f"  struct {inner}:\n    0 [+1]  UInt  v\n"
        + f"  0 [+1]  UInt  {inner.lower()}\n"
        + f"struct {inner}:\n  0 [+2]  UInt  w\n"
        + f"struct User:\n  0 [+1]  {inner}  f\n  1 [+1]  {t}.{inner}  g\n"
    )
    files = {"m.emb": text}
    # Two imports exposing the same alias-less enum name through 'import as'.
    a = _hdr(rng) + f"enum {inner}:\n  AA = 1\n"
    files["amb_a.emb"] = a
    files["amb_b.emb"] = a
    files["amb.emb"] = (
        'import "amb_a.emb" as one\nimport "amb_b.emb" as two\n'
        + _hdr(rng)
        + f"struct Q:\n  0 [+1]  one.{inner}  f\n  1 [+1]  two.{inner}  g\n  2 [+1]  {inner}  h\n"
    )
    entry = rng.choice(["m.emb", "amb.emb"])
    return files, entry, ["name_error"]


def cat_duplicates(rng):
    used = []
    t = camel(rng, used)
    f = snake(rng, used)
    k = rng.randint(2, 4)
    lines = [_hdr(rng), f"struct {t}:"]
    for i in range(k):
        lines.append(f"  {i} [+1]  UInt  {f}")
    lines.append(f"struct {t}:\n  0 [+1]  UInt  x")
    lines.append(f"enum {t}:\n  AB = 1\n  AB = 2")
    return {"m.emb": "\n".join(lines) + "\n"}, "m.emb", ["duplicate"]


def cat_bad_attributes(rng):
    opts = [
        '[byte_order: "Sideways"]',
        "[byte_order: 12]",
        '[(cpp) namespace: ""]',
        "[fixed_size_in_bits: 9]",
        '[requires: "no"]',
        "[is_signed: 3]",
        '[(java) package: "x"]',
        "[maximum_bits: 100]",
        '[text_output: "Maybe"]',
        "[unknown_attr: 1]",
        "[byte_order: LITTLE]",
        "[expected_back_ends: 5]", '[(cpp) enum_case: 7]', '[(java) enum_case: 7]', '[(cpp) enum_case: "snake_case"]', "[text_output: 1]",
        "[requires: 1 + 1]", "[is_signed: 1 == 1]", '[maximum_bits: "8"]', "[maximum_bits: 4 + 4]", "[fixed_size_in_bits: true]",
    ]
    lines = [_hdr(rng), f"struct {camel(rng)}:"]
    for i in range(rng.randint(2, 5)):
        lines.append(f"  {i * 2} [+2]  UInt  f{i}")
        lines.append(f"    {rng.choice(opts)}")
    lines.append(f"enum {camel(rng)}:\n  {rng.choice(opts)}\n  AB = 1")
    if rng.random() < 0.3:
        lines.insert(1, rng.choice(opts))
    if rng.random() < 0.3:
        lines.insert(0, rng.choice(['[expected_back_ends: "java, cpp"]', "[expected_back_ends: 5]", '[expected_back_ends: "java"]']))
    return {"m.emb": "\n".join(lines) + "\n"}, "m.emb", ["attribute_error"]


def cat_type_errors(rng):
    """A few expressions of the wrong type among well-typed ones (each wrong one is caught by a
    different rule, so there are at most two per file: more would only mask each other)."""
    bad = [
        "true + 1", "1 == true", "x && 1", "1 ? 2 : 3", "$max(true, 1)", "Kind.AA + 1", "x < Kind.AA", "true ? 1 : false", "-true",
        "$present(1)", "0xffff_ffff_ffff_ffff + x", "x * x * x * x * x * x * x * x * x", "$upper_bound(true)", "$present(x) + 1",
        "Kind.AA == Other.CC", "(x == 1) == Kind.AA", "$max()", "$lower_bound(x, x)", "x ? x : x",
    ]
    rare = ["x.y", "x[0]", "nope + 1", "Kind.ZZ == Kind.AA"]
    ok = ["x + 1", "x == 1", "Kind.AA == Kind.BB", "$max(x, 3)", "(x < 3) && (x > 1)", "x < 3 ? x : 3", "$present(x)", "$upper_bound(x) + 1", "x * 2 - 1"]
    lines = [_hdr(rng), "enum Kind:\n  AA = 1\n  BB = 2", "enum Other:\n  CC = 1"]
    if rng.random() < 0.3:
        # enum values of the wrong type, and values that depend on them
        lines.append("enum Odd:\n  ON = " + rng.choice(["true", "1 == 1", "Kind.AA", "Kind.AA == Kind.BB"]) + "\n  NEXT = ON\n  SUM = " + rng.choice(["ON + 1", "Kind.BB", "2"]))
        ok = ok + ["Odd.ON == Odd.ON", "Odd.NEXT == Odd.SUM"]
        bad = ["x == Odd.ON"] if rng.random() < 0.3 else []  # the odd enum is this file's flaw
    picks = [rng.choice(ok) for _ in range(rng.randint(1, 4))] + [rng.choice(bad) for _ in range(rng.choice([0, 1, 1, 2]) if bad else 0)]
    if rng.random() < 0.15:
        picks.append(rng.choice(rare))
    rng.shuffle(picks)
    lines += [f"struct {camel(rng)}:", "  0 [+1]  UInt  x"]
    for i, e in enumerate(picks):
        lines.append(f"  let v{i} = {e}")
    if rng.random() < 0.5:
        lines.append(f"  if {rng.choice(['x == 1', 'x < 3 && x > 0', '$present(x)'] * 2 + bad[:6])}:\n    1 [+1]  UInt  y")
    if rng.random() < 0.5:
        lines.append(f"  {rng.choice(['2', 'x + 2', '$max(x, 2)'] * 2 + bad[:4])} [+{rng.choice(['x', '3', 'x * 2'] * 2 + bad[:4])}]  UInt:8[]  z")
    return {"m.emb": "\n".join(lines) + "\n"}, "m.emb", ["type_error"]


def cat_layout_errors(rng):
    cands = [
        "  0 [+3]  UInt:16  a", "  0 [+9]  UInt  b", "  0 [+1]  UInt:8[3]  c", "  0 [+4]  Float  d\n  4 [+3]  Float  e",
        "  0 [+2]  Flag  g", "  0 [+0]  UInt  h", "  -1 [+1]  UInt  i", "  0 [+1]  Bcd:9  j",
        "  0 [+4]  UInt:8[]  k\n  $next [+1]  UInt  l\n  $next [+$next]  UInt:8[]  m",
        "  0 [+1]  bits:\n    0 [+9]  UInt  n", "  0 [+2]  UInt[]  o", "  0 [+1]  Kind  p",
        "  0 [+1]  UInt  q\n    [requires: this]", "  0 [+8]  Int:64  r\n  let s = r * r",
        "  0 [+1]  UInt  after", "  0 [+1]  UInt  class", "  $next [+1]  UInt  t",
        "  0 [+1]  UInt  u\n  0xffff_ffff_ffff_ffff [+u]  UInt:8[]  v",
        "  0 [+$max_size_in_bytes]  UInt:8[]  w", "  0 [+8]  UInt  a64\n  a64 [+8]  UInt  c64", "  0 [+8]  UInt  b64\n  b64 + 1 [+8]  UInt  d64",
        "  0 [+8]  UInt  e64\n  8 [+e64]  UInt:8[]  f64\n  $next [+1]  UInt  g64",
        "  0 [+-1]  UInt  neg\n  let neg_plus = neg + 1", "  0 [+4]  bits:\n    0 [+0]  UInt  zero_bits\n    1 [+-2]  Int  neg_bits",
        "  0 [+8]  bits:\n    0 [+65]  UInt  wide_bits\n    1 [+18446744073709551616]  Int  huge_bits",
        "  0 [+18446744073709551615]  Bcd  huge\n  let huge_plus = huge + 1", "  0 [+2]  UInt:8[]  na\n  2 [+$next]  UInt  nb\n  $next [+1]  UInt  nc",
        "  0 [+1]  UInt  n1\n  $next [+$next + 1]  UInt:8[]  n2\n  $next [+1]  UInt  n3\n  $next [+1]  UInt  n4", "  0 [+600]  Int  big\n  if big > 3:\n    600 [+1]  UInt  after_big",
    ]
    # one construction per entry file (an error hides the deferred errors of every other construction in
    # the same compilation), plus one file that combines a few
    files, entries = {}, []
    for i, c in enumerate(rng.sample(cands, rng.randint(2, 5))):
        files[f"lay{i}.emb"] = "\n".join([_hdr(rng), f"struct {camel(rng)}:", c]) + "\n"
        entries.append(f"lay{i}.emb")
    lines = [_hdr(rng), f"struct {camel(rng)}:"]
    lines.extend(rng.sample(cands, rng.randint(2, 4)))
    files["m.emb"] = "\n".join(lines) + "\n"
    entries.append("m.emb")
    return files, entries, ["layout_error"]


def cat_unknown_import(rng):
    files = {
        "m.emb": 'import "nowhere.emb" as nope\nimport "sub/also_missing.emb" as nope2\n'
        + _hdr(rng)
        + "struct Foo:\n  0 [+1]  UInt  x\n"
    }
    return files, "m.emb", ["import_missing"]


def cat_error_in_import(rng):
    inner, _, _ = rng.choice([cat_type_errors, cat_layout_errors, cat_bad_attributes, cat_duplicates])(rng)
    files = {"lib/bad.emb": inner["m.emb"]}
    files["m.emb"] = 'import "lib/bad.emb" as bad\n' + _hdr(rng) + "struct Foo:\n  0 [+1]  UInt  x\n"
    return files, "m.emb", ["error_in_imported_file"]


def cat_prelude_clash(rng):
    text = _hdr(rng) + "struct UInt:\n  0 [+1]  Int  x\nstruct Foo:\n  0 [+1]  UInt  y\n  1 [+1]  Flag  z\nexternal Flag:\n  [addressable_unit_size: 1]\n"
    return {"m.emb": text}, "m.emb", ["error_pointing_into_prelude"]


def valid_with_anonymous_bits(rng, n_bits_blocks=None):
    """A valid module with several anonymous bits blocks (advances the counter)."""
    n = n_bits_blocks or rng.randint(1, 12)
    used = []
    lines = [_hdr(rng)]
    ntypes = rng.randint(1, 3)
    for _t in range(ntypes):
        lines.append(f"struct {camel(rng, used)}:")
        off = 0
        for _ in range(n):
            w = rng.choice([1, 2, 4])
            lines.append(f"  {off} [+{w}]  bits:")
            bit = 0
            for _k in range(rng.randint(1, 3)):
                bw = rng.randint(1, 4)
                kind = rng.choice(["UInt", "Int", "Flag"])
                if kind == "Flag":
                    bw = 1
                lines.append(f"    {bit} [+{bw}]  {kind}  {snake(rng, used)}")
                bit += bw
            off += w
        if rng.random() < 0.5:
            f1 = used[-1]
            lines.append(f"  if {f1} == {f1}:\n    {off} [+1]  UInt  {snake(rng, used)}")
    return {"m.emb": "\n".join(lines) + "\n"}, "m.emb", ["valid", "anonymous_bits"]


def valid_project(rng):
    """A small valid multi-file project with imports, enums, virtual fields."""
    used = []
    e = camel(rng, used)
    s = camel(rng, used)
    lib = (
        _hdr(rng)
        + f"enum {e}:\n  [maximum_bits: 8]\n  {shouty(rng, used)} = 1\n  {shouty(rng, used)} = 2\n"
        + f"struct {s}:\n  0 [+2]  UInt  len\n  2 [+len]  UInt:8[]  data\n  let total = len + 2\n"
    )
    t = camel(rng, used)
    main = (
        'import "lib/types.emb" as types\n'
        + _hdr(rng)
        + f"struct {t}:\n  0 [+1]  types.{e}  kind\n  1 [+1]  bits:\n    0 [+4]  UInt  lo\n    4 [+4]  UInt  hi\n"
        + f"  if kind == types.{e}.{used[1]}:\n    2 [+8]  types.{s}  body\n"
        + "  let both = lo + hi * 16\n"
    )
    return {"lib/types.emb": lib, "m.emb": main}, "m.emb", ["valid", "anonymous_bits", "imports"]


def cat_cross_file_notes(rng):
    """Errors in a short importing file whose notes point into a long imported file: wrong parameter
    count / kind, static reference to a physical or non-constant field, explicit size that does not
    match an imported fixed-size type, a requirement of a prelude type."""
    used = []
    e, p1, p2, plain = camel(rng, used), camel(rng, used), camel(rng, used), camel(rng, used)
    v1, v2 = shouty(rng, used), shouty(rng, used)
    def padding():
        return "".join(rng.choice(["\n", "# filler\n", "#\n"]) for _ in range(rng.randint(0, 40)))

    pad = padding()
    lib = _hdr(rng) + padding()
    lib += f"enum {e}:\n  {v1} = 1\n  {v2} = 2\n" + padding()
    lib += f"struct {p1}(count: UInt:8):\n  0 [+1]  UInt  first\n  1 [+count]  UInt:8[]  rest\n  let twice = first * 2\n  let fixed = 7\n"
    lib += padding()
    lib += f"struct {p2}(kind: {e}, scale: Int:16):\n  0 [+2]  UInt  raw\n  if kind == {e}.{v2}:\n    2 [+2]  UInt  more\n"
    lib += f"struct {plain}:\n  0 [+4]  UInt  word\n  let half = word * 1\n"
    uses = [
        f"  {{o}} [+4]  lib.{p1}  f{{n}}",                               # no parameters given
        f"  {{o}} [+4]  lib.{p1}(1, 2)  f{{n}}",                         # too many
        f"  {{o}} [+4]  lib.{p2}(lib.{e}.{v1})  f{{n}}",                 # too few
        f"  {{o}} [+4]  lib.{p2}(3, 4)  f{{n}}",                         # integer where an enum is wanted
        f"  {{o}} [+4]  lib.{p2}(lib.{e}.{v1}, lib.{e}.{v2})  f{{n}}",   # enum where an integer is wanted
        f"  {{o}} [+4]  lib.{p1}(true)  f{{n}}",                         # boolean parameter
        f"  {{o}} [+4]  lib.{plain}(1)  f{{n}}",                         # parameter for a type without any
        f"  {{o}} [+lib.{plain}.word]  UInt:8[]  f{{n}}",                # static reference to a physical field
        f"  {{o}} [+lib.{p1}.twice]  UInt:8[]  f{{n}}",                  # static reference to a non-constant virtual
        f"  {{o}} [+4]  lib.{plain}:16  f{{n}}",                         # explicit size against an imported fixed-size type
        f"  {{o}} [+9]  UInt  f{{n}}",                                   # requirement of a prelude type
        f"  {{o}} [+4]  lib.{p1}(lib.{p1}.fixed)  f{{n}}",               # fine
    ]
    lines = ['import "lib/defs.emb" as lib', _hdr(rng).rstrip("\n"), f"struct {camel(rng, used)}:"]
    # few flaws per file, so that later passes are reached as often as early ones
    n_bad = rng.choice([0, 0, 1, 1, 1, 2, 3])
    picks = [rng.choice(uses[:-1]) for _ in range(n_bad)] + [uses[-1]] * rng.randint(0, 2)
    rng.shuffle(picks)
    for n, u in enumerate(picks):
        lines.append(u.format(o=n * 16, n=n))
    if not picks:
        lines.append("  0 [+1]  UInt  only")
    if rng.random() < 0.5:
        lines.append(f"enum {camel(rng, used)}:\n  AA = lib.{plain}.half\n  BB = lib.{p1}.fixed")
    return {"lib/defs.emb": lib, "m.emb": "\n".join(lines) + "\n"}, "m.emb", ["cross_file_notes", "error_in_imported_file"]


def cat_back_end_attributes(rng):
    """A module the front end accepts whose back-end attributes are right, wrong, or meant for another
    back end: these diagnostics come from the C++ back end (or from nobody)."""
    used = []
    ns = rng.choice(['"a::b"', '"x"', '"::a::b"', '"a::b::"'] * 3 + ['""', '"::"', '"a::::b"', '"9a"', '"a b"', '"class"', '"a::int"', '"a.b"', "7", "true"])
    ebe = rng.choice(["", "", '[expected_back_ends: "cpp"]', '[expected_back_ends: "java, cpp"]', '[expected_back_ends: "cpp, java, rust"]', '[expected_back_ends: "java"]'])
    cases = ['"kCamelCase"', '"SHOUTY_CASE"', '"SHOUTY_CASE, kCamelCase"', '"kCamelCase,SHOUTY_CASE"']
    bad_cases = ['"snake_case"', '""', '"kCamelCase,"', '",kCamelCase"', '"kCamelCase, kCamelCase"', '"kCamelCase,, SHOUTY_CASE"', "7", "true", '"kcamelcase"']
    def case():
        return rng.choice(cases * 3 + bad_cases)
    lines = []
    if ebe:
        lines.append(ebe)
    lines.append('[$default byte_order: "LittleEndian"]')
    lines.append(f"[(cpp) namespace: {ns}]")
    if rng.random() < 0.3:
        lines.append(f"[(cpp) $default enum_case: {case()}]")
    if "java" in ebe and rng.random() < 0.7:
        lines.append(rng.choice(['[(java) package: "x.y"]', "[(java) package: 3]", '[(java) namespace: ""]', "[(java) namespace: 5]", '[(java) $default enum_case: "weird"]']))
    if "java" not in ebe and rng.random() < 0.15:
        lines.append('[(java) package: "x.y"]')  # not among the expected back ends
    e = camel(rng, used)
    lines.append(f"enum {e}:")
    if rng.random() < 0.5:
        lines.append(f"  [(cpp) $default enum_case: {case()}]")
    if "java" in ebe and rng.random() < 0.4:
        lines.append(rng.choice(['  [(java) $default enum_case: "anything"]', "  [(java) $default enum_case: 7]", '  [(java) $default enum_case: ""]']))
    for i in range(rng.randint(1, 3)):
        lines.append(f"  {shouty(rng, used)} = {i}")
        if rng.random() < 0.3:
            lines.append(f"    [(cpp) enum_case: {case()}]")
        if "java" in ebe and rng.random() < 0.3:
            lines.append(rng.choice(['    [(java) enum_case: "anything"]', "    [(java) enum_case: 7]", '    [(java) enum_case: ""]']))
    s_ = camel(rng, used)
    lines.append(f"struct {s_}:")
    if rng.random() < 0.2:
        lines.append(f"  [(cpp) $default enum_case: {case()}]")
    lines.append(f"  0 [+1]  {e}  kind")
    lines.append(f"  1 [+2]  UInt  {rng.choice(['value'] * 8 + ['class', 'int', 'namespace'])}")
    return {"m.emb": "\n".join(lines) + "\n"}, "m.emb", ["back_end_attributes"]


CATALOGUE = [
    cat_multi_cycle, cat_virtual_cycles, cat_import_cycles, cat_ambiguous, cat_duplicates,
    cat_bad_attributes, cat_type_errors, cat_layout_errors, cat_unknown_import,
    cat_error_in_import, cat_prelude_clash, valid_with_anonymous_bits, valid_project, cat_cross_file_notes, cat_back_end_attributes,
]


# ---------------------------------------------------------------------------
# text mutations (edit drift)

_TOKEN_RE = re.compile(r"\"[^\"\n]*\"|[A-Za-z_$][A-Za-z_0-9]*|0[xXbB][0-9a-fA-F_]+|[0-9][0-9_]*|==|!=|<=|>=|&&|\|\||\S")

_SPLICE_TOKENS = [
    "struct", "bits", "enum", "external", "if", "let", "import", "as", ":", "[", "]", "(", ")",
    "+", "-", "*", "==", "?", ",", ".", "$next", "$default", "$size_in_bytes", "$max", "$present",
    "UInt", "Int", "Flag", "true", "false", "0", "1", "8", "64", "65", "0xffff_ffff_ffff_ffff",
    "-9223372036854775808", "18446744073709551616", "this", "Foo", "foo", "FOO", "--", "#", '"x"',
    "[+1]", "[+0]", "$is_statically_sized", "$static_size_in_bits", "$upper_bound", "$lower_bound",
]


def mutate_text(rng, text, other_texts=()):
    """One line- or token-level mutation; returns (new_text, description)."""
    lines = text.split("\n")
    kind = rng.choice(
        ["del_line", "dup_line", "swap_lines", "splice_line", "del_token", "repl_token",
         "ins_token", "dup_token", "int_boundary", "truncate_lines", "indent", "del_char", "ins_char"]
    )
    if not text.strip():
        kind = "ins_token"
    if kind == "del_line" and len(lines) > 1:
        i = rng.randrange(len(lines))
        del lines[i]
        return "\n".join(lines), f"del_line {i}"
    if kind == "dup_line":
        i = rng.randrange(len(lines))
        lines.insert(i, lines[i])
        return "\n".join(lines), f"dup_line {i}"
    if kind == "swap_lines" and len(lines) > 2:
        i = rng.randrange(len(lines) - 1)
        lines[i], lines[i + 1] = lines[i + 1], lines[i]
        return "\n".join(lines), f"swap_lines {i}"
    if kind == "splice_line" and other_texts:
        src = rng.choice(list(other_texts)).split("\n")
        i = rng.randrange(len(lines) + 1)
        j = rng.randrange(len(src))
        lines.insert(i, src[j])
        return "\n".join(lines), f"splice_line {i}"
    if kind == "truncate_lines" and len(lines) > 2:
        i = rng.randrange(1, len(lines))
        keep = lines[:i]
        return "\n".join(keep) + ("\n" if rng.random() < 0.7 else ""), f"truncate_lines {i}"
    if kind == "indent":
        i = rng.randrange(len(lines))
        if rng.random() < 0.5:
            lines[i] = "  " + lines[i]
        else:
            lines[i] = lines[i][2:] if lines[i].startswith("  ") else " " + lines[i]
        return "\n".join(lines), f"indent {i}"
    if kind in ("del_char", "ins_char") and text:
        i = rng.randrange(len(text))
        if kind == "del_char":
            return text[:i] + text[i + 1 :], f"del_char {i}"
        c = rng.choice(list(" \t\n:[]()+-\"'#$\\\x00é\u2028") + ["--", "\r\n"])
        return text[:i] + c + text[i:], f"ins_char {i}"
    toks = list(_TOKEN_RE.finditer(text))
    if not toks:
        return text + rng.choice(_SPLICE_TOKENS) + "\n", "append_token"
    m = rng.choice(toks)
    if kind == "del_token":
        return text[: m.start()] + text[m.end() :], f"del_token {m.group()}"
    if kind == "dup_token":
        return text[: m.end()] + " " + m.group() + text[m.end() :], f"dup_token {m.group()}"
    if kind == "int_boundary":
        ints = [t for t in toks if t.group()[0].isdigit()]
        if ints:
            m = rng.choice(ints)
            v = rng.choice(["0", "1", "7", "8", "9", "63", "64", "65", "255", "256", "4294967296",
                            "9223372036854775807", "9223372036854775808", "18446744073709551615",
                            "18446744073709551616", "0x8000_0000_0000_0000", "0b0", "1_000"])
            return text[: m.start()] + v + text[m.end() :], f"int_boundary {v}"
    if kind == "repl_token" or kind == "int_boundary":
        if rng.random() < 0.5:
            r = rng.choice(toks).group()
        else:
            r = rng.choice(_SPLICE_TOKENS)
        return text[: m.start()] + r + text[m.end() :], f"repl_token {m.group()}->{r}"
    r = rng.choice(_SPLICE_TOKENS)
    return text[: m.start()] + r + " " + text[m.start() :], f"ins_token {r}"


def torn_prefix(rng, text):
    """A prefix of text cut on a character boundary (a save in progress)."""
    if not text:
        return text, 0
    cut = rng.randrange(len(text) + 1)
    if rng.random() < 0.4:
        # editors and VCS tools write whole lines or blocks more often than not
        nl = text.rfind("\n", 0, cut)
        if nl >= 0:
            cut = nl + 1
    return text[:cut], cut


# ---------------------------------------------------------------------------
# token soup and grammar-ish random text


def token_soup(rng):
    n = rng.randint(1, 60)
    out = []
    for _ in range(n):
        out.append(rng.choice(_SPLICE_TOKENS + _WORDS + ["\n", "\n  ", "\n    ", "\n"]))
    return " ".join(out) + "\n"


def random_utf8(rng):
    n = rng.randint(0, 80)
    alphabet = list("abcXYZ019 \n\t:[]()+-*\"'#$_.,=<>?&|\\") + ["é", "ß", "中", "\u2028", "\x00", "\x7f", "\ufeff", "😀"]
    return "".join(rng.choice(alphabet) for _ in range(n))


def worldb_module(rng):
    """A module from World B's protocol generator: accepted by construction, every language feature."""
    from worldb import desc
    from worldb import gen

    m = gen.gen_module(rng)
    return {"m.emb": desc.render_module(m)}, "m.emb", ["valid", "worldb_module"]
