"""Checks C01, C03, C04, C06, C20: seeded simulation of two endpoints and a wire (World B)."""

import base64
import json
import os
import pickle
import re
import shutil
import subprocess
import sys
import time

from simlib import core
from worldb import desc as D
from worldb import driver as drv
from worldb import gen
from worldb import model as M
from worldb import scen
from worldb import scen2

CXX = "clang++-14"
WANT = {"C01": [], "C03": ["write"], "C04": ["write", "copy", "equals", "text"], "C06": ["text"], "C20": ["copy", "equals"]}


# ---------------------------------------------------------------------------
# compiling the module with the real compiler (in-process, from the working tree)

_compiler = {}


def load_compiler():
    if _compiler:
        return _compiler
    sys.pycache_prefix = "/dev/shm/emboss-verif-pycache"
    sys.dont_write_bytecode = False
    if core.REPO not in sys.path:
        sys.path.insert(0, core.REPO)
    from compiler.back_end.cpp import header_generator
    from compiler.front_end import glue
    from compiler.util import error

    _compiler.update(glue=glue, header_generator=header_generator, error=error)
    return _compiler


def compile_files(files, entry="m.emb"):
    """{file: header text} for entry and everything it imports, or (None, message)."""
    c = load_compiler()

    def reader(name):
        return (files[name], None) if name in files else (None, ["not found"])

    headers = {}
    try:
        for name in [entry] + [n for n in sorted(files) if n != entry]:
            ir, _dbg, errors = c["glue"].parse_emboss_file(name, reader)
            if errors:
                return None, c["error"].format_errors(errors, files)
            header, errors = c["header_generator"].generate_header(ir)
            if errors:
                return None, c["error"].format_errors(errors, files)
            headers[name + ".h"] = header
        return headers, None
    except Exception as e:  # a compiler crash is C16's subject; here the module is just skipped
        return None, f"compiler exception {type(e).__name__}: {e}"


def compile_emb(text):
    headers, err = compile_files({"m.emb": text})
    return (headers["m.emb.h"], None) if headers else (None, err)


def build_flags(build):
    flags = [f"-std=c++{build['std']}", "-O0", "-fsanitize=address,undefined,float-cast-overflow",
             "-fno-sanitize-recover=all", "-fno-omit-frame-pointer", "-w", f"-I{core.REPO}", "-I."]
    if build.get("no_opt"):
        flags.append("-DEMBOSS_NO_OPTIMIZATIONS")
    return flags


def build_driver(module, want, build, workdir):
    """Returns (binary or None, stage, message)."""
    os.makedirs(workdir, exist_ok=True)
    headers, err = compile_files(D.render_files(module))
    if headers is None:
        return None, "rejected", err
    for hname, header in headers.items():
        with open(os.path.join(workdir, hname), "w") as f:
            f.write(header)
    src = drv.DriverGen(module, want, aligned=build.get("aligned", 0)).generate("m.emb.h")
    with open(os.path.join(workdir, "driver.cc"), "w") as f:
        f.write(src)
    r = subprocess.run([CXX] + build_flags(build) + ["driver.cc", "-o", "driver"], cwd=workdir,
                       capture_output=True, text=True)
    if r.returncode != 0:
        return None, "cxx", r.stderr[-6000:]
    return os.path.join(workdir, "driver"), "ok", ""


ENV = dict(os.environ, ASAN_OPTIONS="detect_leaks=0:abort_on_error=0:allocator_may_return_null=1:symbolize=1",
           UBSAN_OPTIONS="print_stacktrace=1:halt_on_error=1", ASAN_SYMBOLIZER_PATH="/usr/bin/llvm-symbolizer-14")


def run_driver(binary, text, timeout=120):
    try:
        r = subprocess.run([binary], input=text.encode(), capture_output=True, timeout=timeout, env=ENV)
        return r.stdout.decode("utf-8", "replace"), r.stderr.decode("utf-8", "replace"), r.returncode
    except subprocess.TimeoutExpired as e:
        return (e.stdout or b"").decode("utf-8", "replace"), "TIMEOUT", -999


def parse_output(stdout):
    per_op = {}
    last_done = 0
    for line in stdout.splitlines():
        sp = line.find(" ")
        if sp <= 0:
            continue
        try:
            idx = int(line[:sp])
        except ValueError:
            continue
        rest = line[sp + 1:]
        if rest == "!done":
            last_done = idx
            continue
        eq = rest.find("=")
        if eq < 0:
            continue
        per_op.setdefault(idx, []).append((rest[:eq], rest[eq + 1:]))
    return per_op, last_done


_FRAME_RE = re.compile(r"#\d+ 0x[0-9a-f]+ in (.+?) (?:/|\(|$)")


def classify_abort(stderr, rc):
    kind = "abnormal_exit"
    m = re.search(r"AddressSanitizer: ([a-zA-Z-]+)", stderr)
    if m:
        kind = "asan:" + m.group(1)
    else:
        m = re.search(r"runtime error: ([^\n]{0,80})", stderr)
        if m:
            msg = m.group(1)
            msg = re.sub(r"-?\d+", "N", msg)
            kind = "ubsan:" + msg[:60]
        elif "Assertion" in stderr or "EMBOSS_CHECK" in stderr or "CHECK" in stderr:
            kind = "runtime_check_abort"
        elif stderr == "TIMEOUT":
            kind = "timeout"
    frame = None
    for fm in _FRAME_RE.finditer(stderr):
        fn = fm.group(1)
        if "emboss" in fn or "sim::" in fn:
            frame = re.sub(r"<.*", "", fn)[:80]
            break
    return kind, frame


# ---------------------------------------------------------------------------
# comparison of one script's output with the model's expectations


def compare(script, per_op, prop, line_lo, line_hi, counters):
    """Returns failures for lines in [line_lo, line_hi]."""
    failures = []
    history = {}   # key -> (value) for the monotonicity check within one stream epoch
    hist_epoch = None

    def fail(klass, sig, detail, line, facts=None, pr=None):
        if pr is None:
            pr = {"could_write_mismatch": "C03", "try_write_mismatch": "C03", "write_effect_mismatch": "C03",
                  "write_to_absent_element": "C03", "write_path_missing_in_view": "C03",
                  "known_value_changed": "C01", "valid_message_not_ok": "C01"}.get(klass, prop)
        if prop == "C04" and pr == "C04" and klass != "process_aborted":
            pr = "C01"  # in the C04 check only the health of the process is C04's own oracle
        failures.append({"property": pr, "world": "B", "class": klass, "signature": sig, "detail": detail,
                         "line": line, "op_no": script.op_of_line[line - 1], "facts": facts or {}})

    for line in range(line_lo, line_hi + 1):
        exp = script.expect.get(line)
        if exp is None:
            continue
        got_list = per_op.get(line, [])
        got = dict(got_list)
        kind = exp["kind"]
        req = exp.get("requires_line")
        if req is not None and dict(per_op.get(req, [])).get(exp["requires"][0]) != exp["requires"][1]:
            continue
        if kind == "observe":
            counters["observations"] = counters.get("observations", 0) + 1
            mismatch = False
            for key, want, facts in exp["pairs"]:
                counters["comparisons"] = counters.get("comparisons", 0) + 1
                if want == M.UNSPEC:
                    counters["unspecified"] = counters.get("unspecified", 0) + 1
                    continue
                have = got.get(key)
                if isinstance(want, frozenset):
                    counters["either_of_two_accepted"] = counters.get("either_of_two_accepted", 0) + 1
                    if have in want:
                        continue
                    want = sorted(x for x in want if x is not None)
                elif have is None and key.endswith((".val", ".size")):
                    continue  # the matching .ok/.size_known line already differs (reported there)
                if have != want:
                    facts = dict(facts)
                    if facts.get("signed_enum") and facts.get("bits") and have is not None:
                        try:
                            facts["missing_sign_extension"] = int(want) < 0 and int(have) == int(want) + (1 << facts["bits"])
                        except (ValueError, TypeError):
                            pass
                    if exp.get("restored"):
                        fail("restored_view_differs_from_original", [facts["kind"], facts.get("scalar")],
                             {"key": key, "original": want, "restored": have}, line, facts, pr="C06")
                    else:
                        # what a view reports over given bytes is C01's subject; the other checks use the
                        # observation as the post-state of their own operation
                        owner = "C01" if (prop in ("C01", "C04") or facts.get("array_extent_exceeds_backing")) else prop
                        fail("observation_mismatch", [facts["kind"]], {"key": key, "expected": want, "observed": have}, line,
                             facts, pr=owner)
                    mismatch = True
                    if facts.get("array_extent_exceeds_backing") or facts.get("missing_sign_extension"):
                        # explained by a recorded finding (if it is listed): keep comparing the rest
                        continue
                    break
            if not mismatch and not exp.get("restored"):
                bad = _size_constant_failure(got_list, got, counters)
                if bad is not None:
                    fail(bad[0], [bad[1]], bad[2], line, {"kind": bad[1]}, pr="C01")
                    mismatch = True
            _probe_observation(exp, got, counters)
            st = exp.get("stream")
            if st is not None and prop == "C01":
                ep = (st.get("epoch", 0))
                if hist_epoch != ep or st.get("pos") == 0:
                    history = {}
                    hist_epoch = ep
                kinds = {k: f for k, _w, f in exp["pairs"]}
                for key, value in got_list:
                    old = history.get(key)
                    if old is not None and _is_known(key, old, history) and value != old:
                        kf = kinds.get(key, {})
                        kk = kf.get("kind", _key_kind(key))
                        before = history.get(("facts", key), {})
                        fail("known_value_changed", [kk], {"key": key, "before": old, "after": value, "pos": st.get("pos")}, line,
                             {"kind": kk, "before_array_extent_exceeds_backing": bool(before.get("array_extent_exceeds_backing"))})
                        if before.get("array_extent_exceeds_backing"):
                            continue
                        break
                for key, value in got_list:
                    history[key] = value
                    history[("facts", key)] = kinds.get(key, {})
                if exp.get("final_valid") and not mismatch:
                    if got.get("v.ok") != "1" or got.get("v.complete") != "1":
                        fail("valid_message_not_ok", [], {"ok": got.get("v.ok"), "complete": got.get("v.complete")}, line)
        elif kind == "write":
            counters["writes"] = counters.get("writes", 0) + 1
            w = got.get("write")
            if exp["could"] is None:
                counters["unspecified"] = counters.get("unspecified", 0) + 1
                continue
            if exp["could"] == "-":
                counters["write_path_absent"] = counters.get("write_path_absent", 0) + 1
                if w not in ("--", "??") or got.get("bytes") != exp["bytes"]:
                    fail("write_to_absent_element", [], {"path": exp["path"], "observed": w, "expected_bytes": exp["bytes"],
                                                        "observed_bytes": got.get("bytes")}, line, exp.get("facts", {}))
                    break
                continue
            if w in (None, "??", "--"):
                fail("write_path_missing_in_view", [], {"path": exp["path"], "observed": w}, line, exp.get("facts", {}))
                break
            facts = dict(exp.get("facts", {}))
            if w[0] != exp["could"]:
                fail("could_write_mismatch", [facts.get("scalar"), facts.get("via")],
                     {"path": exp["path"], "value": exp["value"], "expected": exp["could"], "observed": w[0]}, line, facts)
                break
            if w[1] != exp["tried"]:
                fail("try_write_mismatch", [facts.get("scalar"), facts.get("via")],
                     {"path": exp["path"], "value": exp["value"], "expected": exp["tried"], "observed": w[1]}, line, facts)
                break
            if got.get("bytes") != exp["bytes"]:
                fail("write_effect_mismatch", [facts.get("scalar"), facts.get("via"), "succeeded" if w[1] == "1" else "failed"],
                     {"path": exp["path"], "value": exp["value"], "expected": exp["bytes"], "observed": got.get("bytes")}, line, facts)
                break
            counters["write_ok" if w[1] == "1" else "write_refused"] = counters.get("write_ok" if w[1] == "1" else "write_refused", 0) + 1
            pk = "probe.write_" + str(facts.get("scalar", "?")).lower() + ("_" + str(facts.get("via")) if facts.get("scalar") == "virtual" else "")
            counters[pk] = counters.get(pk, 0) + 1
        elif kind == "bytes":
            if got.get("bytes") != exp["bytes"]:
                fail("arena_differs_from_model", [], {"expected": exp["bytes"], "observed": got.get("bytes")}, line)
                break
        else:
            stop = scen2.compare_other(exp, got, fail, line, counters, prop)
            if stop:
                break
    return failures


def _size_constant_failure(got_list, got, counters):
    """IntrinsicSizeIn*() must agree with SizeIsKnown()/SizeIn*(); Min/MaxSizeIn* are always Ok and
    bound every size actually reported.  Returns (class, kind, detail) or None."""
    for key, value in got_list:
        if not key.endswith(".size_known"):
            continue
        stem = key[: -len(".size_known")]
        if stem + ".max_size" not in got:
            continue  # a driver without these observables
        counters["size_constant_checks"] = counters.get("size_constant_checks", 0) + 1
        mx, mn = got.get(stem + ".max_size"), got.get(stem + ".min_size")
        if got.get(stem + ".intrinsic_ok") != value:
            return ("intrinsic_size_disagrees", "struct.intrinsic_ok", {"key": stem, "size_known": value, "intrinsic_ok": got.get(stem + ".intrinsic_ok")})
        if value == "1" and got.get(stem + ".intrinsic") != got.get(stem + ".size"):
            return ("intrinsic_size_disagrees", "struct.intrinsic", {"key": stem, "size": got.get(stem + ".size"), "intrinsic": got.get(stem + ".intrinsic")})
        if mx == "notok" or mn == "notok":
            return ("size_constant_not_ok", "struct.max_size" if mx == "notok" else "struct.min_size", {"key": stem, "max": mx, "min": mn})
        try:
            if int(mn) > int(mx):
                return ("size_outside_min_max", "struct.min_size", {"key": stem, "min": mn, "max": mx})
            if value == "1":
                counters["probe.size_checked_against_min_max"] = counters.get("probe.size_checked_against_min_max", 0) + 1
                size = int(got[stem + ".size"])
                if not int(mn) <= size <= int(mx):
                    return ("size_outside_min_max", "struct.size", {"key": stem, "size": size, "min": mn, "max": mx})
        except (KeyError, ValueError, TypeError):
            return ("size_constant_not_ok", "struct.max_size", {"key": stem, "max": mx, "min": mn, "size": got.get(stem + ".size")})
    return None


def _key_kind(key):
    last = key.rsplit(".", 1)[-1]
    if last.startswith("has_"):
        return "has"
    return last


def _is_known(key, old, history):
    """Is `old` a 'known' report in the sense of C01's persistence clause?"""
    last = key.rsplit(".", 1)[-1]
    stem = key.rsplit(".", 1)[0]
    if last.startswith("has_"):
        return old in ("T", "F")
    if last in ("ok", "complete", "size_known", "intrinsic_ok"):
        return old == "1"
    if last in ("max_size", "min_size"):
        return True
    if last == "intrinsic":
        return history.get(stem + ".intrinsic_ok") == "1"
    if last == "size":
        return history.get(stem + ".size_known") == "1"
    if last == "val":
        return history.get(stem + ".ok") == "1"
    if last in ("count", "observed_elems"):
        return history.get(stem + ".complete") == "1"
    return False


def _probe_observation(exp, got, counters):
    def c(k):
        counters["probe." + k] = counters.get("probe." + k, 0) + 1

    if exp.get("aligned"):
        c("aligned_view_observed")
    if got.get("v.size_known") == "0":
        c("size_unknown")
    if got.get("v.size_known") == "1" and got.get("v.complete") == "0":
        c("size_known_but_incomplete")
    if got.get("v.complete") == "1" and got.get("v.ok") == "0":
        c("complete_but_not_ok")
    if got.get("v.ok") == "1":
        c("view_ok")
    for key, want, facts in exp["pairs"]:
        k = facts["kind"]
        if k == "has" and want == "?":
            c("has_unknown")
        if k == "has" and want == "F":
            c("has_false")
        if k == "scalar.complete" and want == "0" and got.get(key.rsplit(".", 2)[0] + ".has_" + key.rsplit(".", 2)[1]) == "T":
            c("present_but_truncated")
        if k == "array.count" and facts.get("array_extent_exceeds_backing"):
            c("array_extent_exceeds_backing")
        if k == "scalar.ok" and want == "0" and facts.get("scalar") == "Bcd":
            c("bcd_not_ok")


# ---------------------------------------------------------------------------
# one run = one module


def scenarios_for(prop, rng, module, cfg):
    out = []
    n = cfg["scenarios"]
    for _ in range(n):
        if prop == "C01":
            out.append(scen.scenario_stream(rng, module, cfg))
        else:
            out.append(scen2.scenario_for(prop, rng, module, cfg))
    return out


def build_with_fallback(module, want, build, workdir):
    """Builds the driver; when a generated method does not compile, records that and falls back
    feature by feature so that one uncompilable method does not hide everything else."""
    failures = []
    binary, stage, msg = build_driver(module, want, build, workdir)
    if binary is None and stage == "cxx" and want:
        for w in list(want):
            b2, s2, m2 = build_driver(module, [w], build, workdir + f"-{w}")
            shutil.rmtree(workdir + f"-{w}", ignore_errors=True)
            if b2 is None and s2 == "cxx":
                owner = {"text": "C06", "equals": "C20", "copy": "C20", "write": "C03"}[w]
                first = _first_error(m2)
                failures.append({"property": owner, "world": "B", "class": "generated_method_does_not_compile",
                                 "signature": [w, first["sig"]], "detail": {"feature": w, "error": m2[:3000]},
                                 "line": 0, "op_no": -1, "facts": {"feature": w, "error_in": first["sig"],
                                                                   "params": any(s.params for s in module.structs)}})
                want = [x for x in want if x != w]
        binary, stage, msg = build_driver(module, want, build, workdir)
    return binary, stage, msg, want, failures


def execute(module, build, want, scenarios, prop, workdir, keep=False):
    """Builds the driver and runs the scenarios; returns (failures, counters, info)."""
    counters = {}
    failures = []
    binary, stage, msg, want, bfails = build_with_fallback(module, want, build, workdir)
    failures.extend(bfails)
    if bfails:
        counters["driver_build_fallback"] = 1
    info = {"stage": stage, "want": want}
    if binary is None:
        if stage == "cxx":
            first = _first_error(msg)
            failures.append({"property": "C01", "world": "B", "class": "header_does_not_compile", "signature": [first["sig"]],
                             "detail": {"error": msg[:3000]}, "line": 0, "op_no": -1, "facts": {}})
        info["message"] = msg
        return failures, counters, info
    counters["modules_built"] = 1
    # scripts: scenarios back to back; after an abort the remaining scenarios run in a new process
    pending = list(range(len(scenarios)))
    restarts = 0
    while pending and restarts < 12:
        script = scen.Script(module)
        first_line_of = {}
        last_line_of = {}
        for si in pending:
            first_line_of[si] = len(script.lines) + 1
            for j, op in enumerate(scenarios[si]):
                script.add_op(op, (si, j))
            last_line_of[si] = len(script.lines)
        stdout, stderr, rc = run_driver(binary, script.text())
        per_op, last_done = parse_output(stdout)
        counters["driver_processes"] = counters.get("driver_processes", 0) + 1
        aborted_scenario = None
        if rc != 0 or last_done < len(script.lines):
            bad_line = last_done + 1
            for si in pending:
                if first_line_of[si] <= bad_line <= last_line_of[si]:
                    aborted_scenario = si
                    break
            kind, frame = classify_abort(stderr, rc)
            opk = script.lines[bad_line - 1].split(" ")[0] if bad_line <= len(script.lines) else "?"
            failures.append({"property": "C04", "world": "B", "class": "process_aborted", "signature": [kind, frame, opk],
                             "detail": {"stderr": stderr[-5000:], "line_text": script.lines[bad_line - 1] if bad_line <= len(script.lines) else None,
                                        "returncode": rc},
                             "line": bad_line, "op_no": script.op_of_line[bad_line - 1] if bad_line <= len(script.lines) else None,
                             "facts": {"report": kind, "frame": frame, "op": opk}})
        for si in pending:
            if aborted_scenario is not None and si == aborted_scenario:
                hi = last_done
            else:
                hi = last_line_of[si]
            if aborted_scenario is not None and si > aborted_scenario:
                break
            fs = compare(script, per_op, prop, first_line_of[si], min(hi, last_line_of[si]), counters)
            failures.extend(fs)
            counters["scenarios_run"] = counters.get("scenarios_run", 0) + 1
        if aborted_scenario is None:
            break
        pending = [si for si in pending if si > aborted_scenario]
        restarts += 1
    if not keep:
        shutil.rmtree(workdir, ignore_errors=True)
    for f in failures:
        if f.get("op_no") not in (None, -1) and isinstance(f["op_no"], tuple):
            f["scenario"] = f["op_no"][0]
            f["op_in_scenario"] = f["op_no"][1]
        f.pop("op_no", None)
    return failures, counters, info


def _first_error(msg):
    m = re.search(r"error: ([^\n]+)", msg or "")
    text = m.group(1) if m else "unknown"
    sig = re.sub(r"'[^']*'", "'_'", text)
    sig = re.sub(r"\d+", "N", sig)[:100]
    return {"sig": sig}


def count_faults(scenarios, counters):
    """Fault kinds injected by the scenarios that ran (every operation of a scenario executes, so armed = fired)."""
    def c(k, n=1):
        counters["fault." + k] = counters.get("fault." + k, 0) + n

    for ops in scenarios:
        delivers = 0
        stream_kind = None
        for op in ops:
            k = op["op"]
            if k == "alloc":
                if op.get("base", 0) % 8:
                    c("misaligned_buffer_base")
                if op.get("content") not in (None, "valid"):
                    c("buffer_" + op["content"])
            elif k == "note":
                if op.get("content") not in (None, "valid"):
                    c("buffer_" + op["content"])
            elif k == "deliver":
                delivers += 1
            elif k == "flip":
                c("bit_flip_between_observations")
            elif k == "null":
                c("null_view")
            elif k == "channel":
                c("text_channel_" + op["kind"])
            elif k == "restore_literal" and op.get("corrupted"):
                c("text_literal_corrupted")
            elif k == "observe" and op.get("stream"):
                stream_kind = op["stream"].get("kind")
            elif k == "copy":
                if op["arena"] == op["src"]:
                    c("copy_within_one_arena")
                if op["len"] < op["slen"]:
                    c("copy_destination_shorter_than_source_buffer")
        if stream_kind and stream_kind != "valid":
            c("stream_" + stream_kind)
        if delivers > 1:
            c("stream_split_into_chunks", delivers)


def draw_build(rng):
    return {"std": rng.choice([11, 14, 17]), "no_opt": rng.random() < 0.3, "aligned": rng.choice([0, 0, 0, 4, 8])}


def run_one(task):
    prop, seed, index, cfg = task["prop"], task["seed"], task["index"], task["cfg"]
    rng = core.rng_for(prop + ":B", seed, index)
    module = gen.gen_module(rng)
    build = draw_build(rng)
    cfg = dict(cfg, aligned=build["aligned"])
    scenarios = scenarios_for(prop, rng, module, cfg)
    workdir = os.path.join(task["scratch"], f"run{index}")
    t0 = time.monotonic()
    failures, counters, info = execute(module, build, list(WANT[prop]), scenarios, prop, workdir)
    if counters.get("modules_built"):
        count_faults(scenarios, counters)
    own = [f for f in failures if f["property"] == prop]
    other = [f for f in failures if f["property"] != prop]
    for f in other:
        k = f"observed_not_checked.{f['property']}.{f['class']}"
        counters[k] = counters.get(k, 0) + 1
    log = [[prop, seed, index], module.features, build, info["stage"], sorted(counters.items()),
           [(f["class"], f["signature"]) for f in failures]]
    out = {
        "index": index, "digest": core.digest_of(log), "features": module.features, "build": build,
        "stage": info["stage"], "counters": counters, "failures": own, "wall": time.monotonic() - t0,
        "n_scenarios": len(scenarios),
        "nontrivial": counters.get("scenarios_run", 0) > 0 and counters.get("comparisons", 0) + counters.get("writes", 0) + counters.get("ops_checked", 0) > 0
                      and any(k.startswith("fault.") for k in counters),
    }
    if info["stage"] == "rejected":
        out["rejected"] = info.get("message", "")[:500]
    if own or index < 2:
        out["module_pickle"] = base64.b64encode(pickle.dumps(module)).decode()
        out["emb"] = "\n".join(f"# ---- {n}\n{t}" for n, t in sorted(D.render_files(module).items()))
        out["scenarios"] = scenarios
    return out


# ---------------------------------------------------------------------------
# minimisation and replay


def _same(failures, want):
    for f in failures:
        if f["property"] == want["property"] and f["class"] == want["class"] and f["signature"] == want["signature"]:
            return f
    return None


def minimise_task(task):
    want = task["want"]
    module = pickle.loads(base64.b64decode(task["module_pickle"]))
    build = task["build"]
    workdir = os.path.join(task["scratch"], f"min-{task['bucket']}")
    if want.get("scenario") is None:
        # build-level failure: nothing to minimise at the operation level
        fs, _c, _i = execute(module, build, list(WANT[task['prop']]), [], task["prop"], workdir)
        f = _same(fs, want)
        return {"scenario": [], "reproduced": f is not None, "failure": f, "tests": 1}
    ops = task["scenarios"][want["scenario"]][: want["op_in_scenario"] + 1]
    binary, stage, msg, _want, _bf = build_with_fallback(module, list(task["want_features"]), build, workdir)
    if binary is None:
        return {"scenario": ops, "reproduced": False, "tests": 0, "note": "driver did not build in minimisation"}
    tests = [0]

    def run(cand):
        tests[0] += 1
        script = scen.Script(module)
        try:
            for j, op in enumerate(cand):
                script.add_op(op, (0, j))
        except Exception:  # a reduced op list may be meaningless to the model (e.g. missing arena)
            return None
        stdout, stderr, rc = run_driver(binary, script.text(), timeout=30)
        per_op, last_done = parse_output(stdout)
        fs = []
        counters = {}
        if rc != 0 or last_done < len(script.lines):
            bad = last_done + 1
            kind, frame = classify_abort(stderr, rc)
            opk = script.lines[bad - 1].split(" ")[0] if bad <= len(script.lines) else "?"
            fs.append({"property": "C04", "world": "B", "class": "process_aborted", "signature": [kind, frame, opk],
                       "detail": {"stderr": stderr[-5000:], "line_text": script.lines[bad - 1] if bad <= len(script.lines) else None},
                       "facts": {"report": kind, "frame": frame, "op": opk}, "line": bad})
        fs += compare(script, per_op, task["prop"], 1, min(last_done, len(script.lines)), counters)
        return _same(fs, want)

    if run(ops) is None:
        shutil.rmtree(workdir, ignore_errors=True)
        return {"scenario": ops, "reproduced": False, "tests": tests[0]}
    small = core.ddmin(ops, lambda c: run(c) is not None, max_tests=task["budget"])
    f = run(small)
    out = {"scenario": small, "reproduced": f is not None, "failure": f, "tests": tests[0]}
    # shrink the module: drop every type the failing structure cannot reach (one extra build)
    if f is not None:
        try:
            reduced = reduce_module(module, {op["struct"] for op in small if op.get("struct")})
        except Exception:  # pylint:disable=broad-except
            reduced = None
        if reduced is not None and len(reduced.structs) + len(reduced.enums) < len(module.structs) + len(module.enums):
            wd2 = workdir + "-reduced"
            b2, _s2, _m2, _w2, _bf2 = build_with_fallback(reduced, list(task["want_features"]), build, wd2)
            if b2 is not None:
                full_module, full_binary = module, binary
                module, binary = reduced, b2
                f2 = run(small)
                if f2 is not None:
                    out.update(failure=f2, tests=tests[0], module_pickle=base64.b64encode(pickle.dumps(reduced)).decode(),
                               emb="\n".join(f"# ---- {n}\n{t}" for n, t in sorted(D.render_files(reduced).items())))
                module, binary = full_module, full_binary
            shutil.rmtree(wd2, ignore_errors=True)
    shutil.rmtree(workdir, ignore_errors=True)
    return out


def reduce_module(module, keep):
    """A copy of `module` holding only the types reachable from the structures named in `keep`."""
    import copy

    reach_s, reach_e = set(), set()

    def visit_expr(e):
        if e is None:
            return
        for x in D.walk(e):
            if isinstance(x, D.EnumConst):
                reach_e.add(x.enum)

    def visit_struct(name):
        if name in reach_s:
            return
        reach_s.add(name)
        sd = module.struct(name)
        if getattr(sd, "parent", None):
            visit_struct(sd.parent)
        visit_expr(sd.requires)
        for _n, k, _b in sd.params:
            if k not in ("UInt", "Int"):
                visit_enum(k)
        for f in sd.fields:
            for g in [f] + (f.type.members if isinstance(f.type, D.AnonBits) else []):
                for e in (g.cond, g.expr, g.requires, g.start, g.size):
                    visit_expr(e)
                t = g.type
                if isinstance(t, D.ArrayT):
                    visit_expr(t.count)
                    t = t.elem
                if isinstance(t, D.Scalar) and t.kind == "Enum":
                    visit_enum(t.enum)
                if isinstance(t, D.StructRef):
                    for a in t.args:
                        visit_expr(a)
                    visit_struct(t.name)

    def visit_enum(name):
        reach_e.add(name)
        e = module.enum(name)
        if getattr(e, "parent", None):
            visit_struct(e.parent)

    for k in keep:
        visit_struct(k)
    changed = True
    while changed:  # enums found through expressions may live inside structures
        before = (len(reach_s), len(reach_e))
        for en in list(reach_e):
            visit_enum(en)
        changed = before != (len(reach_s), len(reach_e))
    m2 = copy.copy(module)
    m2.structs = [s for s in module.structs if s.name in reach_s]
    m2.enums = [e for e in module.enums if e.name in reach_e]
    m2.mains = [n for n in module.mains if n in reach_s]
    return m2


def replay(args):
    with open(args.replay) as fh:
        body = json.load(fh)
    prop = body["property"]
    module = pickle.loads(base64.b64decode(body["module_pickle"]))
    workdir = os.path.join(core.scratch_root(), "replay")
    load_compiler()
    scenarios = [body["scenario"]] if body["scenario"] else []
    fs, _c, info = execute(module, body["build"], list(body["want_features"]), scenarios, prop, workdir)
    got = _same(fs, body["failure"])
    if got is None:
        print(f"REPLAY-NOT-REPRODUCED property={prop} replay={args.replay} (stage={info['stage']})")
        for f in fs[:5]:
            print("  other failure:", f["property"], f["class"], f["signature"])
        return 3
    if not args.quiet_confirm:
        print(json.dumps({"class": got["class"], "signature": got["signature"], "detail": got["detail"]}, indent=1)[:6000])
        print(f"VIOLATION property={prop} replay={args.replay}")
    return 1


def config(prop, tier):
    quick = tier == "quick"
    cfg = {"scenarios": 40 if quick else 120, "stream_weights": [4, 2, 2, 2, 1, 2], "one_at_a_time": not quick}
    cfg["runs"] = {"C01": 110, "C03": 90, "C04": 90, "C06": 80, "C20": 90}[prop] if quick else \
        {"C01": 450, "C03": 450, "C04": 450, "C06": 450, "C20": 500}[prop]
    return cfg


def main(args):
    if args.replay:
        return replay(args)
    prop, tier = args.what, args.tier
    seed = core.env_seed()
    cfg = config(prop, tier)
    runs = args.runs or cfg["runs"]
    t0 = time.monotonic()
    scratch = core.scratch_root()
    core.install_signal_cleanup(core.remove_scratch)
    load_compiler()
    print(f"[{prop}] tier={tier} VERIF_SEED={seed} runs={runs} workers={args.workers} repo={core.REPO}", flush=True)
    tasks = [{"prop": prop, "seed": seed, "index": i, "cfg": cfg, "scratch": scratch} for i in range(runs)]
    results, harness_errors, skipped = core.run_pool(run_one, tasks, args.workers, per_task_timeout_s=900,
                                                     wall_cap_s=160 if tier == "quick" else 600)
    done = [r for r in results if r is not None]
    print(f"[{prop}] search phase done: {len(done)} runs in {time.monotonic() - t0:.1f}s", flush=True)
    if args.digests_only:
        for r in done:
            print(f"DIGEST {r['index']} {r['digest']} failures={len(r['failures'])}")
        return 0
    buckets = {}
    for r in done:
        for f in r["failures"]:
            f["run_index"] = r["index"]
            f["run_seed"] = seed
            sig = core.digest_of([f["property"], f["class"], f["signature"]])[:12]
            if sig not in buckets:
                buckets[sig] = {"failure": f, "run": r, "count": 0}
            buckets[sig]["count"] += 1
    known = core.load_known_findings()
    known_lines = {}
    to_min = []
    for sig in sorted(buckets, key=lambda s: (buckets[s]["failure"]["run_index"], s)):
        b = buckets[sig]
        kid = core.match_known(b["failure"], known)
        if kid:
            known_lines.setdefault(kid, [0, b["failure"]])
            known_lines[kid][0] += b["count"]
        else:
            to_min.append((sig, b))
    to_min = to_min[:20]
    mtasks = [{"want": b["failure"], "module_pickle": b["run"]["module_pickle"], "build": b["run"]["build"],
               "scenarios": b["run"]["scenarios"], "prop": prop, "want_features": list(WANT[prop]), "scratch": scratch,
               "bucket": sig, "budget": 60 if tier == "quick" else 200} for sig, b in to_min]
    mres, merrs, _ = core.run_pool(minimise_task, mtasks, args.workers, per_task_timeout_s=900)
    harness_errors += merrs
    violations = []
    nondet = 0
    for (sig, b), mr in zip(to_min, mres):
        if mr is None:
            continue
        if not mr["reproduced"]:
            nondet += 1
            print(f"HARNESS-NONDETERMINISM property={prop} class={b['failure']['class']} signature={b['failure']['signature']} run={b['failure']['run_index']} {mr.get('note', '')}")
            continue
        body = {"property": prop, "world": "B", "verif_seed": seed, "run_index": b["failure"]["run_index"], "tier": tier,
                "emb": mr.get("emb") or b["run"]["emb"], "module_pickle": mr.get("module_pickle") or b["run"]["module_pickle"], "build": b["run"]["build"],
                "module_reduced": bool(mr.get("module_pickle")),
                "want_features": list(WANT[prop]), "scenario": mr["scenario"], "failure": mr["failure"],
                "occurrences_in_this_invocation": b["count"], "ddmin_tests": mr["tests"],
                "tool_versions": core.tool_versions(),
                "how_to_replay": f"/venv/bin/python bin/check.py {prop} --replay <this file>"}
        path = core.write_replay(prop, b["failure"], body)
        rc = subprocess.run([sys.executable, os.path.join(core.VERIF_DIR, "bin", "check.py"), prop, "--replay", path,
                             "--quiet-confirm"], capture_output=True, text=True).returncode
        if rc == 1:
            violations.append((path, mr["failure"], b["count"]))
        else:
            nondet += 1
            print(f"HARNESS-NONDETERMINISM property={prop} replay={path} (fresh-process replay did not reproduce)")

    wall = time.monotonic() - t0
    counters = {}
    for r in done:
        for k, v in r["counters"].items():
            counters[k] = counters.get(k, 0) + v
    built = [r for r in done if r["stage"] == "ok"]
    rejected = [r for r in done if r["stage"] == "rejected"]
    digests = {r["digest"] for r in done if r["nontrivial"]}
    feats = {}
    for r in built:
        for f in r["features"]:
            feats[f] = feats.get(f, 0) + 1
    samples = []
    for r in done[:2]:
        samples.append({"run_index": r["index"], "features": r["features"], "build": r["build"], "emb": r.get("emb"),
                        "first_scenario": (r.get("scenarios") or [[]])[0][:12]})
    coverage = {
        "evaluations": len(done),
        "distinct_nontrivial": len(digests),
        "rule": "one evaluation = one generated protocol module (seeded, swarm-varied features), compiled by the real compiler, built with "
                "clang++ -fsanitize=address,undefined, and driven through its scenarios (operation scripts on exact, poisoned buffers); "
                "non-trivial = the driver built, at least one fault fired and at least one oracle comparison was made; distinct = distinct SHA-256 of (module features, build, counters, failures)",
        "samples": samples,
        "modules_built": len(built), "modules_rejected_by_compiler": len(rejected),
        "scenarios_run": counters.get("scenarios_run", 0),
        "oracle_comparisons": counters.get("comparisons", 0) + counters.get("writes", 0) + counters.get("ops_checked", 0),
        "unspecified_not_compared": counters.get("unspecified", 0),
        "driver_processes": counters.get("driver_processes", 0),
        "faults_fired": {k[6:]: v for k, v in sorted(counters.items()) if k.startswith("fault.")},
        "probes": {k[6:]: v for k, v in sorted(counters.items()) if k.startswith("probe.")},
        "feature_histogram": dict(sorted(feats.items())),
        "builds": {"std": sorted({r["build"]["std"] for r in built}), "no_optimizations": sum(1 for r in built if r["build"]["no_opt"])},
        "distinct_states": {"measure": "distinct (module, build) pairs built", "count": len(built)},
        "runs_per_hour": round(len(done) / wall * 3600),
        "scenarios_per_hour": round(counters.get("scenarios_run", 0) / wall * 3600),
        "seeds": {"VERIF_SEED": seed, "run_indices": [0, len(done) - 1] if done else []},
        "simulated_time": "not applicable: neither the generated code nor the runtime reads a clock; the unit is the simulated step (one script operation)",
        "runs_skipped_by_wall_cap": skipped,
        "observed_but_not_this_property": {k: v for k, v in sorted(counters.items()) if k.startswith("observed_not_checked.")},
        "real_vs_stub": {
            "real": ["the emboss compiler (front end and C++ back end, working tree)", "generated headers and runtime/cpp/*.h compiled by clang++-14 "
                     "with AddressSanitizer and UBSan, runtime CHECKs enabled"],
            "stub": ["the byte link between sender and receiver, buffer placement and alignment, the text channel (owned by the scheduler)",
                     "the oracle: an independent reference model written from the documents"],
        },
        "known_findings_printed": sorted(known_lines),
        "other_counters": {k: v for k, v in sorted(counters.items()) if not k.startswith(("probe.", "fault.", "observed_not_checked."))},
    }
    assumptions = ["the reference model (worldb/model.py) is the trusted statement of the documented semantics",
                   "x86-64 little-endian host only", "messages of at most 96 bytes; arrays observed up to 8 elements"]
    if not args.no_evidence:
        core.write_evidence(prop, tier, seed, wall, len(violations), coverage, assumptions)
    for kid in sorted(known_lines):
        n, f = known_lines[kid]
        print(f"KNOWN-FINDING: property={prop} {kid} class={f['class']} occurrences={n}")
    for path, f, n in violations:
        print(f"  violation class={f['class']} signature={f['signature']} occurrences={n}")
        print(f"VIOLATION property={prop} replay={path}")
    for e in harness_errors[:10]:
        print("HARNESS-ERROR:", e[-3000:], file=sys.stderr)
    print(f"[{prop}] modules={len(done)} built={len(built)} rejected={len(rejected)} scenarios={counters.get('scenarios_run', 0)} "
          f"comparisons={coverage['oracle_comparisons']} violations={len(violations)} known={len(known_lines)} wall={wall:.1f}s", flush=True)
    if violations:
        return 1
    if harness_errors or nondet or not done:
        return 2
    if len(rejected) * 2 > len(done):
        print("HARNESS-ERROR: more than half of the generated modules were rejected by the compiler", file=sys.stderr)
        return 2
    return 0
