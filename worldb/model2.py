"""Model of copy, equals and the text format."""
