"""Model of TryToCopyFrom, Equals and the text format (World B, C06 and C20)."""

import struct as _struct

from worldb import desc as D
from worldb import model as M


# ---------------------------------------------------------------------------
# Equals


def _float_eq(bits_a, bits_b, width):
    fmt = "<f" if width == 32 else "<d"
    pk = "<I" if width == 32 else "<Q"
    a = _struct.unpack(fmt, _struct.pack(pk, bits_a))[0]
    b = _struct.unpack(fmt, _struct.pack(pk, bits_b))[0]
    return a == b  # NaN != NaN, +0 == -0: "reads equal" by operator==


def equals(a, b, depth=0):
    """Logical equality of two Ok views of the same structure type (None = not decidable)."""
    for name, f, container in a.fields():
        if isinstance(f.type, D.AnonBits):
            continue
        ha, hb = a.has(name), b.has(name)
        if ha is None or hb is None:
            return False
        if ha != hb:
            return False
        if not ha or f.is_virtual:
            continue
        t = f.type
        if isinstance(t, D.Scalar):
            va, vb = a.read(name), b.read(name)
            if va is None or vb is None:
                return None
            if t.kind == "Float":
                if not _float_eq(va[1], vb[1], t.bits):
                    return False
            elif va != vb:
                return False
        elif isinstance(t, D.StructRef):
            r = equals(a.sub_env(name), b.sub_env(name), depth + 1)
            if r is not True:
                return r
        elif isinstance(t, D.ArrayT):
            ia, ib = a.array_info(name), b.array_info(name)
            if ia is None or ib is None:
                return None
            if ia[0] != ib[0]:
                return False
            for i in range(ia[0]):
                if isinstance(t.elem, D.StructRef):
                    r = equals(a.sub_env(name, i), b.sub_env(name, i), depth + 1)
                    if r is not True:
                        return r
                else:
                    va, vb = a.array_elem_read(name, i), b.array_elem_read(name, i)
                    if va is None or vb is None:
                        return None
                    if t.elem.kind == "Float":
                        if not _float_eq(va[1], vb[1], t.elem_bits):
                            return False
                    elif va != vb:
                        return False
    return True


def equals_str(denv, senv):
    if not (denv.ok() and senv.ok()):
        return "n/a"
    r = equals(denv, senv)
    if r is None:
        return None
    r2 = equals(senv, denv)
    return ("1" if r else "0") + ("1" if r2 else "0")


# ---------------------------------------------------------------------------
# TryToCopyFrom


def copy(script, denv, senv, op):
    """Applies memmove semantics to the model's arenas; returns the expectation."""
    ok = senv.ok()
    size = senv.size() if ok else None
    fits = ok and denv.store.ok and denv.store.avail >= size
    dst = script.arenas[op["arena"]]
    src = script.arenas[op["src"]]
    if fits:
        data = bytes(src[senv.store.lo: senv.store.lo + size])
        dst[denv.store.lo: denv.store.lo + size] = data
    return {"result": "1" if fits else "0", "dst": bytes(dst).hex(), "src": bytes(src).hex(),
            "facts": {"src_ok": bool(ok), "fits": bool(fits), "same_arena": op["arena"] == op["src"],
                      "overlap": op["arena"] == op["src"] and size is not None and abs(op["off"] - op["soff"]) < size,
                      "direction": "forward" if op["off"] < op["soff"] else "backward" if op["off"] > op["soff"] else "same"}}


# ---------------------------------------------------------------------------
# text


def has_skip(module, sd, seen=None):
    seen = seen or set()
    if sd.name in seen:
        return False
    seen.add(sd.name)
    for f in sd.fields:
        if f.skip:
            return True
        mems = f.type.members if isinstance(f.type, D.AnonBits) else []
        if any(m.skip for m in mems):
            return True
        t = f.type
        if isinstance(t, D.ArrayT):
            t = t.elem
        if isinstance(t, D.StructRef) and has_skip(module, module.struct(t.name), seen):
            return True
    return False


def emitted_pairs(env, prefix="v"):
    """Expectations for the observation of a view restored from the text of `env`:
    presence pattern and the value of every emitted physical scalar."""
    pairs = []
    M.observe(env, prefix, pairs)
    skip_prefixes = []
    _collect_skips(env, prefix, skip_prefixes)
    out = []
    for key, value, facts in pairs:
        if facts["kind"] not in ("has", "scalar.val", "elem.val", "array.count"):
            continue
        stem = key
        if any(stem == p or stem.startswith(p + ".") or stem.startswith(p + "[") for p in skip_prefixes):
            continue
        if facts["kind"] == "has":
            name = key.rsplit(".has_", 1)
            if any((name[0] + "." + name[1]) == p for p in skip_prefixes):
                pass
        out.append((key, value, dict(facts, restored=True)))
    return out


def _collect_skips(env, prefix, out, depth=0):
    for name, f, container in env.fields():
        if isinstance(f.type, D.AnonBits):
            continue
        p = f"{prefix}.{name}"
        if f.skip or (container is not None and container.skip):
            out.append(p)
            continue
        if env.has(name) is not True or f.is_virtual:
            continue
        t = f.type
        if isinstance(t, D.StructRef) and depth < 3:
            sub = env.sub_env(name)
            if sub is not None:
                _collect_skips(sub, p, out, depth + 1)
        elif isinstance(t, D.ArrayT) and isinstance(t.elem, D.StructRef):
            info = env.array_info(name)
            if info is not None and env.array_extent_present(name):
                for i in range(min(info[0], M.MAX_ELEMS)):
                    _collect_skips(env.sub_env(name, i), f"{p}[{i}]", out, depth + 1)


def fmt_int(rng, v):
    style = rng.choice(["dec", "dec", "hex", "bin", "dec_", "hex_"])
    neg = v < 0
    a = -v if neg else v
    if style == "dec":
        s = str(a)
    elif style == "hex":
        s = hex(a)
    elif style == "bin":
        s = bin(a)
    elif style == "dec_":
        s = f"{a:,}".replace(",", "_")
    else:
        h = f"{a:x}"
        groups = []
        while h:
            groups.insert(0, h[-4:])
            h = h[:-4]
        s = "0x" + "_".join(groups)
    return ("-" if neg else "") + s


def literal_text(rng, env, depth=0, corrupt=None):
    """Text in the documented format for the values of `env` (floats omitted);
    returns (text, [(env-relative path, value)] in text order)."""
    parts = []
    sets = []
    for name, f, container in env.fields():
        if isinstance(f.type, D.AnonBits) or f.is_virtual:
            continue
        if env.has(name) is not True:
            continue
        t = f.type
        if isinstance(t, D.Scalar):
            if t.kind == "Float":
                continue
            v = env.read(name)
            if v is None:
                continue
            txt = _scalar_text(rng, env, t, v)
            if corrupt is not None and corrupt.get("path") == name and depth == corrupt.get("depth", 0):
                txt = corrupt["text"]
            parts.append(f"{name}: {txt}")
            sets.append(((name,), v))
        elif isinstance(t, D.StructRef) and depth < 3:
            sub = env.sub_env(name)
            if sub is None or not sub.store.ok:
                continue
            st, ss = literal_text(rng, sub, depth + 1)
            parts.append(f"{name}: {st}")
            sets += [((name,) + p, v) for p, v in ss]
        elif isinstance(t, D.ArrayT):
            info = env.array_info(name)
            if info is None or not env.array_extent_present(name) or info[0] > 12:
                continue
            elems = []
            for i in range(info[0]):
                if isinstance(t.elem, D.StructRef):
                    st, ss = literal_text(rng, env.sub_env(name, i), depth + 1)
                    elems.append(st)
                    sets += [((name, i) + p, v) for p, v in ss]
                else:
                    if t.elem.kind == "Float":
                        elems = None
                        break
                    v = env.array_elem_read(name, i)
                    if v is None:
                        elems = None
                        break
                    elems.append(_scalar_text(rng, env, D.Scalar(t.elem.kind, t.elem_bits, t.elem.enum), v))
                    sets.append(((name, i), v))
            if elems is None:
                continue
            if rng.random() < 0.3 and elems:
                elems = [f"[{i}]: {e}" for i, e in enumerate(elems)]
            parts.append(f"{name}: {{ " + ", ".join(elems) + (", " if rng.random() < 0.3 and elems else " ") + "}")
    sep = rng.choice([", ", ",\n  ", "\n  ", " "]) if depth == 0 else rng.choice([", ", " "])
    body = sep.join(parts)
    if depth == 0 and rng.random() < 0.3:
        body += "  # trailing comment\n"
    return "{ " + body + " }", sets


def _scalar_text(rng, env, t, v):
    if t.kind == "Flag":
        return "true" if v else "false"
    if t.kind == "Enum":
        e = env.m.enum(t.enum)
        names = [n for n, val in e.values if val == v]
        if names and rng.random() < 0.7:
            return names[0]
        return fmt_int(rng, v)
    return fmt_int(rng, v)


def add_text_op(script, op, op_no):
    k = op["op"]
    st, params = op.get("struct"), op.get("params")
    if k == "dump":
        n = script._add(f"T {st} {script._params(params)} {op['arena']} {op['off']} {op['len']} {op['ml']} {op['cm']} {op['grp']} {op['base']} {op['slot']}", op_no)
        script.expect[n] = {"kind": "dump", "op_no": op_no}
        script.slots = getattr(script, "slots", set()) | {op["slot"]}
    elif k == "channel":
        n = script._add(f"X {op['slot']} {op['kind']} {op['arg']}", op_no)
        script.expect[n] = {"kind": "channel", "op_no": op_no}
    elif k == "restore_slot":
        n = script._add(f"R {st} {script._params(params)} {op['arena']} {op['off']} {op['len']} @{op['slot']}", op_no)
        expected = op.get("expect") if op["slot"] in getattr(script, "slots", set()) else None
        script.expect[n] = {"kind": "restore", "expected": expected, "op_no": op_no,
                            "facts": {"multiline": bool(op.get("ml")), "faulted": bool(op.get("faulted")),
                                      "has_array": bool(op.get("has_array"))}}
        script.untracked = getattr(script, "untracked", set()) | {op["arena"]}
        script.last_restore_line = n
    elif k == "restore_literal":
        env = script.env(st, params, op["arena"], op["off"], op["len"])
        expected = op.get("expect")
        exp_bytes = None
        if expected == "1":
            ok = True
            for path, v in op["sets"]:
                if not _apply_set(script, st, params, op, tuple(path), v):
                    ok = False
                    break
            if ok:
                exp_bytes = bytes(script.arenas[op["arena"]]).hex()
            else:
                expected = None
                script.untracked = getattr(script, "untracked", set()) | {op["arena"]}
        else:
            script.untracked = getattr(script, "untracked", set()) | {op["arena"]}
        text = op["text"].replace("\\", "\\\\").replace("\n", "\\n")
        n = script._add(f"R {st} {script._params(params)} {op['arena']} {op['off']} {op['len']} {text}", op_no)
        script.expect[n] = {"kind": "restore", "expected": expected, "bytes": exp_bytes, "op_no": op_no,
                            "facts": {"literal": True, "corrupted": bool(op.get("corrupted")), "corruption": op.get("corruption")}}
        script.last_restore_line = n
    elif k == "observe_restored":
        env = script.env(st, params, op["like_arena"], op["like_off"], op["like_len"])
        pairs = emitted_pairs(env)
        n = script._add(f"O {st} {script._params(params)} {op['arena']} {op['off']} {op['len']}", op_no)
        script.expect[n] = {"kind": "observe", "pairs": pairs, "op_no": op_no, "requires_line": script.last_restore_line,
                            "requires": ("restore", "1"), "restored": True}
    elif k == "equals_restored":
        n = script._add(f"E {st} {script._params(params)} {op['arena']} {op['off']} {op['len']} {op['src']} {op['soff']} {op['slen']}", op_no)
        script.expect[n] = {"kind": "equals", "value": op.get("expect"), "op_no": op_no, "requires_line": script.last_restore_line,
                            "requires": ("restore", "1"), "restored": True}
    else:
        raise ValueError(k)


def _apply_set(script, st, params, op, path, v):
    """Writes one `name: value` of a literal text into the model's arena; False if the model cannot."""
    e = script.env(st, params, op["arena"], op["off"], op["len"])
    i = 0
    while True:
        name = path[i]
        nxt = path[i + 1] if i + 1 < len(path) else None
        if nxt is None:
            return M.try_write(e, name, v) is True
        if isinstance(nxt, int):
            if i + 2 == len(path):
                return _write_elem(e, name, nxt, v)
            e = e.sub_env(name, nxt)
            i += 2
        else:
            e = e.sub_env(name)
            i += 1
        if e is None or not e.store.ok:
            return False


def _write_elem(e, name, idx, v):
    f, _c = e.lookup(name)
    t = f.type
    info = e.array_info(name) if e.has(name) is True else None
    if info is None or idx >= info[0] or not e.array_extent_present(name):
        return False
    et = D.Scalar(t.elem.kind, t.elem_bits, t.elem.enum)
    if not M.representable(et, v, e.m):
        return False
    est = e.field_store(name)
    eu = t.elem_bits // e.s.unit
    sub = est.sub(idx * eu, eu)
    raw = M.encode_scalar(et, v, e.m)
    if isinstance(sub, M.ByteStore):
        if sub.avail != eu:
            return False
        sub.buf[sub.lo: sub.lo + eu] = raw.to_bytes(eu, "big" if e._order(f) == "BigEndian" else "little")
    else:
        sub.write_uint(raw)
    e._memo.clear()
    return True
