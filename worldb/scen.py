"""Scenario generation for World B: message synthesis, operation scripts and the
model's expectation for every observation.  A scenario is a list of operations
(dicts); `Script` turns operations into driver script lines and expectations.
Operations are fully materialised, so replay draws nothing from a PRNG.
"""

from worldb import desc as D
from worldb import model as M

MAX_MSG = 96


# ---------------------------------------------------------------------------
# message synthesis through the model's own encoder


def _choose_value(rng, env, name, f, control):
    t = f.type
    if t.kind == "Flag":
        return rng.random() < 0.5
    if t.kind == "Float":
        if t.bits == 32:
            special = [0, 1 << 31, 0x3F800000, 0x7F800000, 0xFF800000, 0x7F7FFFFF, 0xFF7FFFFF, 0x00000001, 0x80000001, 0x00800000,
                       0x7FC00000, 0x3DCCCCCD, 0xC2F6E979]
        else:
            special = [0, 1 << 63, 0x3FF0000000000000, 0x7FF0000000000000, 0xFFF0000000000000, 0x7FEFFFFFFFFFFFFF, 0xFFEFFFFFFFFFFFFF,
                       0x0000000000000001, 0x8000000000000001, 0x0010000000000000, 0x8010000000000000, 0x7FF8000000000000,
                       0x3FB999999999999A, 0xC05EDD2F1A9FBE77, 0xFFD5555555555555, 0x800FFFFFFFFFFFFF]
        # every length of printed representation: extreme exponents of both signs, denormals, NaN, infinities
        return ("f", rng.choice(special) if rng.random() < 0.6 else rng.getrandbits(t.bits))
    if t.kind == "Enum":
        e = env.m.enum(t.enum)
        lo, hi = M.scalar_range(t, env.m)
        vals = [v for _n, v in e.values if lo <= v <= hi]
        if vals and rng.random() < 0.8:
            return rng.choice(vals)
        return rng.randint(lo, hi)
    lo, hi = M.scalar_range(t, env.m)
    if control:
        cands = [v for v in (0, 1, 2, 3, 4, 5, 6) if lo <= v <= hi]
        if cands and rng.random() < 0.85:
            return rng.choice(cands)
    r = rng.random()
    if r < 0.15:
        return lo
    if r < 0.3:
        return hi
    if r < 0.4:
        return min(hi, max(lo, rng.choice([0, 1, -1, 2])))
    return rng.randint(lo, hi)


def _referenced_names(sd):
    names = set()

    def scan(e):
        if e is None:
            return
        for x in D.walk(e):
            if isinstance(x, D.Ref):
                names.add(x.path[0])
            if isinstance(x, D.Present):
                names.add(x.path[0])

    for f in sd.fields:
        fs = [f] + (f.type.members if isinstance(f.type, D.AnonBits) else [])
        for g in fs:
            scan(g.cond)
            scan(g.expr)
            if not g.is_virtual:
                scan(g.start)
                scan(g.size)
                t = g.type
                if isinstance(t, D.ArrayT):
                    scan(t.count)
                    t = t.elem
                if isinstance(t, D.StructRef):
                    for a in t.args:
                        scan(a)
    scan(sd.requires)
    # one level of indirection through virtual fields
    for f in sd.fields:
        if f.is_virtual and f.name in names:
            for x in D.walk(f.expr):
                if isinstance(x, D.Ref):
                    names.add(x.path[0])
    return names


def fixup(rng, env, depth=0, satisfy=0.9):
    """Writes plausible values into every present scalar of env, in source order."""
    control = _referenced_names(env.s)
    for name, f, container in env.fields():
        if f.is_virtual or isinstance(f.type, D.AnonBits):
            continue
        env._memo.clear()
        if env.has(name) is not True:
            continue
        t = f.type
        if isinstance(t, D.Scalar):
            if not env.scalar_complete(name):
                continue
            for _try in range(12):
                v = _choose_value(rng, env, name, f, name in control)
                if f.requires is None or rng.random() > satisfy:
                    break
                if env.eval(f.requires, this=v) is True:
                    break
            env.write_raw(name, M.encode_scalar(t, v, env.m))
        elif isinstance(t, D.StructRef) and depth < 3:
            sub = env.sub_env(name)
            if sub is not None and sub.store.ok:
                fixup(rng, sub, depth + 1, satisfy)
        elif isinstance(t, D.ArrayT):
            info = env.array_info(name)
            if info is None:
                continue
            for i in range(min(info[0], 12)):
                if isinstance(t.elem, D.StructRef):
                    sub = env.sub_env(name, i)
                    if sub is not None and sub.store.ok and depth < 3:
                        fixup(rng, sub, depth + 1, satisfy)
                elif t.elem.kind == "Bcd":
                    st = env.field_store(name)
                    eu = t.elem_bits // env.s.unit
                    est = st.sub(i * eu, eu)
                    if isinstance(est, M.ByteStore) and est.avail == eu:
                        lo, hi = M.scalar_range(D.Scalar("Bcd", t.elem_bits), env.m)
                        raw = M.encode_scalar(D.Scalar("Bcd", t.elem_bits), rng.randint(lo, hi), env.m)
                        est.buf[est.lo: est.lo + eu] = raw.to_bytes(eu, "big" if env._order(f) == "BigEndian" else "little")
    env._memo.clear()


def draw_params(rng, sd, module=None):
    vals = []
    for _n, k, b in sd.params:
        if k == "UInt":
            vals.append(rng.choice([0, 1, 2, 3, (1 << b) - 1, rng.randint(0, (1 << b) - 1)]))
        elif k == "Int":
            vals.append(rng.choice([0, 1, -1, 2, -(1 << (b - 1)), (1 << (b - 1)) - 1]))
        elif module is not None:
            # an enum parameter: one of the declared values, or a small unnamed one
            vals.append(rng.choice([v for _name, v in module.enum(k).values] + [0, 1, 2]))
        else:
            vals.append(0)
    return vals


def make_env(module, sd, params, buf, lo, avail, fold=False):
    pv = {n: v for (n, _k, _b), v in zip(sd.params, params)}
    return M.Env(module, sd, pv, M.ByteStore(buf, lo, avail), fold=fold)


def synth_message(rng, module, sd, params, satisfy=0.9):
    """Returns (bytes, is_ok) of a complete message, or None if none was found."""
    for _attempt in range(6):
        buf = bytearray(rng.getrandbits(8) for _ in range(MAX_MSG + 32))
        env = make_env(module, sd, params, buf, 0, MAX_MSG + 32)
        fixup(rng, env, satisfy=satisfy)
        env = make_env(module, sd, params, buf, 0, MAX_MSG + 32)
        size = env.size()
        if size is None or size > MAX_MSG:
            continue
        msg = bytes(buf[:size])
        env2 = make_env(module, sd, params, bytearray(msg), 0, size)
        return msg, env2.ok()
    return None


# ---------------------------------------------------------------------------
# scripts


def hexs(b):
    return bytes(b).hex() if len(b) else "-"


class Script:
    """Builds driver script lines plus the model's expectations from operations."""

    def __init__(self, module):
        self.m = module
        self.lines = []
        self.expect = {}   # op index (1-based) -> expectation dict
        self.arenas = {}   # name -> bytearray (the model's copy)
        self.op_of_line = []

    def _add(self, line, op_no):
        self.lines.append(line)
        self.op_of_line.append(op_no)
        return len(self.lines)

    def _params(self, params):
        return ",".join(str(p) for p in params) if params else "-"

    def env(self, st, params, arena, off, ln, fold=False):
        sd = self.m.struct(st)
        buf = self.arenas[arena]
        avail = max(0, min(ln, len(buf) - off))
        return make_env(self.m, sd, params, buf, off, avail, fold=fold)

    def add_op(self, op, op_no):
        k = op["op"]
        if k == "note":
            return  # bookkeeping for the evidence (which kind of buffer a scenario starts from)
        if k == "reset":
            self.arenas = {}
            self._add("Z", op_no)
        elif k == "alloc":
            self.arenas[op["arena"]] = bytearray(bytes.fromhex(op["hex"]))
            self._add(f"A {op['arena']} {op['hex'] or '-'} {op['base']}", op_no)
        elif k == "deliver":
            self.arenas[op["arena"]] += bytes.fromhex(op["hex"])
            self._add(f"D {op['arena']} {op['hex']}", op_no)
        elif k == "set":
            data = bytes.fromhex(op["hex"])
            self.arenas[op["arena"]][op["off"]: op["off"] + len(data)] = data
            self._add(f"S {op['arena']} {op['off']} {op['hex']}", op_no)
        elif k == "flip":
            buf = self.arenas[op["arena"]]
            if op["bit"] // 8 < len(buf):
                buf[op["bit"] // 8] ^= 1 << (op["bit"] % 8)
                self._add(f"F {op['arena']} {op['bit']}", op_no)
        elif k == "observe" and op["arena"] in getattr(self, "untracked", set()):
            self._add(f"O {op['struct']} {self._params(op['params'])} {op['arena']} {op['off']} {op['len']}{' A' if op.get('aligned') else ''}", op_no)
        elif k == "observe":
            pairs = M.observe_both(lambda fold: self.env(op["struct"], op["params"], op["arena"], op["off"], op["len"], fold))
            n = self._add(f"O {op['struct']} {self._params(op['params'])} {op['arena']} {op['off']} {op['len']}{' A' if op.get('aligned') else ''}", op_no)
            self.expect[n] = {"kind": "observe", "pairs": pairs, "op_no": op_no, "stream": op.get("stream"), "aligned": bool(op.get("aligned")),
                              "final_valid": op.get("final_valid")}
        elif k == "null":
            n = self._add(f"N {op['struct']}", op_no)
            self.expect[n] = {"kind": "null", "op_no": op_no}
        elif k == "write":
            env = self.env(op["struct"], op["params"], op["arena"], op["off"], op["len"])
            if op["arena"] in getattr(self, "untracked", set()):
                cw, tw, facts = None, None, {}
            else:
                cw, tw, facts = model_write(env, op["path"], op["value"])
            if cw is None:
                # the documents do not decide this write: the model no longer knows the arena's bytes
                self.untracked = getattr(self, "untracked", set()) | {op["arena"]}
            n = self._add(f"W {op['struct']} {self._params(op['params'])} {op['arena']} {op['off']} {op['len']} {op['path']} {op['value']}{' A' if op.get('aligned') else ''}", op_no)
            self.expect[n] = {"kind": "write", "could": cw, "tried": tw, "bytes": bytes(self.arenas[op["arena"]]).hex(),
                              "op_no": op_no, "path": op["path"], "value": op["value"], "facts": facts}
        elif k in ("copy", "equals"):
            n = self._add(f"{'C' if k == 'copy' else 'E'} {op['struct']} {self._params(op['params'])} {op['arena']} {op['off']} {op['len']} "
                          f"{op['src']} {op['soff']} {op['slen']}", op_no)
            denv = self.env(op["struct"], op["params"], op["arena"], op["off"], op["len"])
            senv = self.env(op["struct"], op["params"], op["src"], op["soff"], op["slen"])
            if k == "copy":
                from worldb import model2
                res = model2.copy(self, denv, senv, op)
                self.expect[n] = dict(res, kind="copy", op_no=op_no)
            else:
                from worldb import model2
                self.expect[n] = {"kind": "equals", "value": model2.equals_str(denv, senv), "op_no": op_no}
        elif k == "bytes":
            n = self._add(f"B {op['arena']}", op_no)
            if op["arena"] not in getattr(self, "untracked", set()):
                self.expect[n] = {"kind": "bytes", "bytes": bytes(self.arenas[op["arena"]]).hex(), "op_no": op_no}
        else:
            from worldb import model2
            model2.add_text_op(self, op, op_no)

    def text(self):
        return "\n".join(self.lines) + "\n"


def _split_path(path):
    """'a.b[2].c' -> [('a', None), ('b', 2), ('c', None)]"""
    out = []
    for part in path.split("."):
        if "[" in part:
            n, i = part[:-1].split("[")
            out.append((n, int(i)))
        else:
            out.append((part, None))
    return out


ABSENT = "absent"
UNDECIDED = "undecided"


def resolve_path(env, path):
    """Returns (env, name, index) of the scalar a write path denotes; ABSENT when the path names an
    element that does not exist (the driver then performs no call); UNDECIDED inside the region of a
    recorded finding (array whose declared extent exceeds the bytes present)."""
    parts = _split_path(path)
    for name, idx in parts[:-1]:
        if idx is not None:
            count = _real_count(env, name)
            if count is not None and count > 0 and not env.array_extent_present(name):
                return UNDECIDED
            if count is None or idx >= count:
                return ABSENT
            env = env.sub_env(name, idx)
        else:
            env = env.sub_env(name)
        if env is None:
            return ABSENT
    name, idx = parts[-1]
    if idx is not None:
        count = _real_count(env, name)
        if count is not None and count > 0 and not env.array_extent_present(name):
            return UNDECIDED
        if count is None or idx >= count:
            return ABSENT
    return env, name, idx


def _real_count(env, name):
    """ElementCount as the documents define it (declared count), or None when unknown."""
    if env.has(name) is not True:
        return 0
    info = env.array_info(name)
    return None if info is None else info[0]


def model_write(env, path, value):
    """(could, tried, facts): '0'/'1', or None where the documents do not decide."""
    r = resolve_path(env, path)
    if r == UNDECIDED:
        return None, None, {}
    if r == ABSENT:
        return "-", "-", {"via": "absent_element"}
    e, name, idx = r
    f, _c = e.lookup(name)
    v = int(value)
    nested = "." in path or "[" in path
    if idx is not None:
        t = f.type
        if not isinstance(t, D.ArrayT) or not isinstance(t.elem, D.Scalar):
            return None, None, {}
        facts = {"scalar": t.elem.kind, "via": "element", "bits": t.elem_bits}
        et = D.Scalar(t.elem.kind, t.elem_bits, t.elem.enum)
        if et.kind == "Flag":
            v = bool(v)
        if et.kind == "Float":
            v = ("f", v & ((1 << t.elem_bits) - 1))
        cw = M.representable(et, v, e.m)
        if cw:
            from worldb import model2
            model2._write_elem(e, name, idx, v)
        return ("1" if cw else "0"), ("1" if cw else "0"), facts
    if f.is_virtual:
        tgt = getattr(f, "writable", None)
        facts = {"scalar": "virtual", "via": tgt[1] if tgt else "read_only"}
        if tgt:
            # the C++ parameter type of the virtual field's write methods (int32/uint32/int64/uint64
            # by the range of the expression): an argument outside it is narrowed by the call itself
            tf, _tc = e.lookup(tgt[0])
            lo, hi = M.scalar_range(tf.type, e.m)
            c = tgt[2]
            lo, hi = {"alias": (lo, hi), "plus": (lo + c, hi + c), "minus": (lo - c, hi - c), "rminus": (c - hi, c - lo)}[tgt[1]]
            window = None
            for size in (32, 64):
                if lo >= -(1 << (size - 1)) and hi <= (1 << (size - 1)) - 1:
                    window = (-(1 << (size - 1)), (1 << (size - 1)) - 1)
                    break
                if lo >= 0 and hi <= (1 << size) - 1:
                    window = (0, (1 << size) - 1)
                    break
            facts["value_outside_cpp_type_of_virtual"] = bool(window and not (window[0] <= v <= window[1]))
    else:
        facts = {"scalar": f.type.kind, "via": "nested" if nested else "direct", "bits": f.type.bits,
                 "requires": f.requires is not None, "value_outside_field_type": not M.representable(f.type, v, e.m) if f.type.kind != "Flag" else False}
        if f.type.kind == "Flag":
            v = bool(v)
        if f.type.kind == "Float":
            v = ("f", v & ((1 << f.type.bits) - 1))
    cw = M.could_write(e, name, v)
    if cw is None:
        return None, None, facts
    tw = M.try_write(e, name, v)
    return ("1" if cw else "0"), ("1" if tw else "0"), facts


# ---------------------------------------------------------------------------
# scenario generators (each returns a list of ops)


def chunks(rng, n, one_at_a_time=False):
    out = []
    left = n
    while left > 0:
        c = 1 if one_at_a_time else min(left, rng.choice([1, 1, 2, 3, 5, 8, left]))
        out.append(c)
        left -= c
    return out


def scenario_stream(rng, module, cfg):
    """A receiver appends arriving bytes to an exact-size buffer and inspects the view after each delivery."""
    st = rng.choice(module.mains)
    sd = module.struct(st)
    params = draw_params(rng, sd, module)
    kind = rng.choices(["valid", "garbage", "truncate", "flip", "oversize", "broken"], weights=cfg["stream_weights"])[0]
    ops = [{"op": "reset"}]
    msg = None
    if kind != "garbage":
        r = synth_message(rng, module, sd, params, satisfy=0.3 if kind == "broken" else 0.95)
        if r is not None:
            msg, valid = r
    if msg is None:
        kind = "garbage"
        msg, valid = bytes(rng.getrandbits(8) for _ in range(rng.randint(0, 40))), False
    base = rng.choice([0, 0, 1, 2, 3, 4, 7, 8])
    ops.append({"op": "alloc", "arena": "rx", "hex": "", "base": base})
    stream = {"kind": kind}
    ob = {"op": "observe", "struct": st, "params": params, "arena": "rx", "off": 0}
    if cfg.get("aligned") and base % cfg["aligned"] == 0 and rng.random() < 0.7:
        ob["aligned"] = True  # the view is told, truthfully, that its buffer is aligned
    ops.append(dict(ob, len=0, stream=dict(stream, pos=0)))
    total = len(msg)
    cut = total
    if kind == "truncate" and total > 0:
        cut = rng.randrange(total)
    sent = 0
    flip_at = rng.randrange(max(1, cut)) if kind == "flip" else None
    epoch = 0
    for c in chunks(rng, cut, cfg.get("one_at_a_time") and rng.random() < 0.5):
        ops.append({"op": "deliver", "arena": "rx", "hex": msg[sent: sent + c].hex()})
        sent += c
        if flip_at is not None and sent > flip_at:
            ops.append({"op": "flip", "arena": "rx", "bit": flip_at * 8 + rng.randrange(8)})
            flip_at = None
            epoch += 1
            valid = False
        final = sent == total and kind in ("valid", "oversize") and valid
        ops.append(dict(ob, len=sent, stream=dict(stream, pos=sent, epoch=epoch), final_valid=final))
    if kind == "oversize":
        extra = bytes(rng.getrandbits(8) for _ in range(rng.randint(1, 9)))
        ops.append({"op": "deliver", "arena": "rx", "hex": extra.hex()})
        ops.append(dict(ob, len=sent + len(extra), stream=dict(stream, pos=sent + len(extra), epoch=epoch), final_valid=valid))
    if rng.random() < 0.1:
        ops.append({"op": "null", "struct": st})
    return ops


def write_values(rng, module, env, path):
    """Candidate values at and just outside every boundary of the field and of the C++ type."""
    r = resolve_path(env, path)
    if r in (ABSENT, UNDECIDED):
        r = None
    if r is not None:
        e0, name0, idx0 = r
        f0, _c0 = e0.lookup(name0)
        t0 = f0.type if not f0.is_virtual else None
        if isinstance(t0, D.ArrayT):
            t0 = D.Scalar(t0.elem.kind, t0.elem_bits, t0.elem.enum) if isinstance(t0.elem, D.Scalar) else None
        if isinstance(t0, D.Scalar) and t0.kind == "Float":
            # bit patterns; no NaN: the payload of a NaN need not survive being passed by value
            if t0.bits == 32:
                return [0, 1 << 31, 0x3F800000, 0x7F800000, 0xFF800000, 0x7F7FFFFF, 0xFF7FFFFF, 1, 0x80000001, 0x00800000, 0x3DCCCCCD,
                        0xC2F6E979, rng.getrandbits(31) & 0x7F7FFFFF]
            return [0, 1 << 63, 0x3FF0000000000000, 0x7FF0000000000000, 0xFFF0000000000000, 0x7FEFFFFFFFFFFFFF, 0xFFEFFFFFFFFFFFFF, 1,
                    0x8000000000000001, 0x0010000000000000, 0x3FB999999999999A, 0xC05EDD2F1A9FBE77, rng.getrandbits(63) & 0x7FEFFFFFFFFFFFFF]
    vals = [0, 1, -1, 2, 255, 256, 65535, 65536, (1 << 31) - 1, 1 << 31, (1 << 32) - 1, 1 << 32,
            (1 << 63) - 1, 1 << 63, (1 << 64) - 1, -(1 << 31), -(1 << 31) - 1, -(1 << 63), 9, 10, 99, 100]
    if r is not None and r[2] is None:
        e, name, _ = r
        f, _c = e.lookup(name)
        if not f.is_virtual and isinstance(f.type, D.Scalar) and f.type.kind != "Float":
            lo, hi = M.scalar_range(f.type, module)
            vals += [lo, lo - 1, lo + 1, hi, hi + 1, hi - 1, rng.randint(lo, hi)]
            if f.type.kind == "Enum":
                vals += [v for _n, v in module.enum(f.type.enum).values]
        if f.requires is not None:
            for x in D.walk(f.requires):
                if isinstance(x, D.Const) and isinstance(x.v, int) and x.v is not True and x.v is not False:
                    vals += [x.v - 1, x.v, x.v + 1]
        tgt = getattr(f, "writable", None)
        if tgt:
            tf, _ = e.lookup(tgt[0])
            lo, hi = M.scalar_range(tf.type, module)
            c = tgt[2]
            for x in (lo, lo - 1, hi, hi + 1):
                vals += [x if tgt[1] == "alias" else x + c if tgt[1] == "plus" else x - c if tgt[1] == "minus" else c - x]
    vals = [v for v in vals if -(1 << 63) <= v < (1 << 64)]
    # An enum argument is converted to the enum's C++ type by the *caller*: values outside that
    # type would be narrowed before emboss sees them, so they are not part of the experiment.
    et = None
    if r is not None:
        e, name, idx = r
        f, _c = e.lookup(name)
        t = f.type if not f.is_virtual else None
        if isinstance(t, D.ArrayT):
            t = t.elem
        if isinstance(t, D.Scalar) and t.kind == "Enum":
            et = module.enum(t.enum)
    else:
        et = None
    if et is not None:
        w = 8 if et.max_bits <= 8 else 16 if et.max_bits <= 16 else 32 if et.max_bits <= 32 else 64
        lo, hi = (-(1 << (w - 1)), (1 << (w - 1)) - 1) if et.signed else (0, (1 << w) - 1)
        vals = [v for v in vals if lo <= v <= hi]
    return vals or [0]
