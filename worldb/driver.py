"""Emits the C++ driver for a generated module (World B).

The driver names every view, accessor, has_ method and (when asked) the write,
copy, equals and text methods of the module, and interprets a small script on
stdin.  Buffers are exact extents of arenas with ASan poison around them, at a
scheduler-chosen misalignment.  The driver guards exactly as the documentation
asks of a caller: Read() only after Ok(), SizeInBytes() only after
SizeIsKnown(), Equals() only when both are Ok().
"""

from worldb import desc as D

PRELUDE = r'''
#include <sanitizer/asan_interface.h>
#include <cinttypes>
#include <cstdio>
#include <cstdlib>
#include <cstring>
#include <map>
#include <sstream>
#include <string>
#include <type_traits>
#include <vector>

struct Arena { unsigned char *mem; size_t cap; size_t base; size_t len; };
static std::map<std::string, Arena> arenas;
static std::map<std::string, std::string> slots;
static long op_index = 0;
static void out(const std::string &k, const std::string &v) { printf("%ld %s=%s\n", op_index, k.c_str(), v.c_str()); }
static std::string b(bool x) { return x ? "1" : "0"; }
template <class M> static std::string maybe(M m) { return m.Known() ? (m.ValueOrDefault() ? "T" : "F") : "?"; }
static std::string hex(const unsigned char *p, size_t n) { std::string s; char t[3]; for (size_t i = 0; i < n; ++i) { snprintf(t, 3, "%02x", p[i]); s += t; } return s; }
static void repoison(Arena &a) { __asan_unpoison_memory_region(a.mem, a.cap); __asan_poison_memory_region(a.mem, a.base); __asan_poison_memory_region(a.mem + a.base + a.len, a.cap - a.base - a.len); }
static unsigned char *ptr(Arena &a, size_t off) { return a.mem + a.base + off; }
template <class V> static std::string num(V v) { std::ostringstream o; o << +v; return o.str(); }
static std::string num(bool v) { return v ? "1" : "0"; }
template <class T, class Enable = void> struct Printer { static std::string p(T v) { return num(v); } };
template <class T> struct Printer<T, typename std::enable_if<std::is_enum<T>::value>::type> { static std::string p(T v) { return num(static_cast<typename std::underlying_type<T>::type>(v)); } };
template <> struct Printer<float> { static std::string p(float f) { uint32_t r; memcpy(&r, &f, 4); char t[16]; snprintf(t, 16, "f%x", r); return t; } };
template <> struct Printer<double> { static std::string p(double f) { uint64_t r; memcpy(&r, &f, 8); char t[24]; snprintf(t, 24, "f%" PRIx64, r); return t; } };
template <class V> static std::string val(V v) { return Printer<V>::p(v); }
template <class View> static void obs_virtual(const std::string &p, View v) { bool ok = v.Ok(); out(p + ".ok", b(ok)); if (ok) out(p + ".val", val(v.Read())); }
template <class View> static void obs_scalar(const std::string &p, View v) { out(p + ".complete", b(v.IsComplete())); bool ok = v.Ok(); out(p + ".ok", b(ok)); if (ok) out(p + ".val", val(v.Read())); }
template <class View> static void obs_elem(const std::string &p, View v) { bool ok = v.Ok(); out(p + ".ok", b(ok)); if (ok) out(p + ".val", val(v.Read())); }
template <class View> static void obs_head(const std::string &p, View v, bool bytes) {
  out(p + ".ok", b(v.Ok())); out(p + ".complete", b(v.IsComplete())); out(p + ".size_known", b(v.SizeIsKnown()));
  if (v.SizeIsKnown()) out(p + ".size", bytes ? num(v.SizeInBytes()) : num(v.SizeInBits()));
}
template <class View> static void obs_head_bits(const std::string &p, View v) {
  out(p + ".ok", b(v.Ok())); out(p + ".complete", b(v.IsComplete())); out(p + ".size_known", b(v.SizeIsKnown()));
  if (v.SizeIsKnown()) out(p + ".size", num(v.SizeInBits()));
  { auto i = v.IntrinsicSizeInBits(); bool k = i.Ok(); out(p + ".intrinsic_ok", b(k)); if (k) out(p + ".intrinsic", num(i.Read())); }
  { auto m = v.MaxSizeInBits(); if (m.Ok()) out(p + ".max_size", num(m.Read())); else out(p + ".max_size", "notok"); }
  { auto m = v.MinSizeInBits(); if (m.Ok()) out(p + ".min_size", num(m.Read())); else out(p + ".min_size", "notok"); }
}
template <class View> static void obs_head_bytes(const std::string &p, View v) {
  out(p + ".ok", b(v.Ok())); out(p + ".complete", b(v.IsComplete())); out(p + ".size_known", b(v.SizeIsKnown()));
  if (v.SizeIsKnown()) out(p + ".size", num(v.SizeInBytes()));
  { auto i = v.IntrinsicSizeInBytes(); bool k = i.Ok(); out(p + ".intrinsic_ok", b(k)); if (k) out(p + ".intrinsic", num(i.Read())); }
  { auto m = v.MaxSizeInBytes(); if (m.Ok()) out(p + ".max_size", num(m.Read())); else out(p + ".max_size", "notok"); }
  { auto m = v.MinSizeInBytes(); if (m.Ok()) out(p + ".min_size", num(m.Read())); else out(p + ".min_size", "notok"); }
}
template <class View, class I> static std::string try_write(View v, I x) { std::string r = b(v.CouldWriteValue(x)); r += b(v.TryToWrite(x)); return r; }
static float bits_to_float(uint32_t r) { float f; memcpy(&f, &r, 4); return f; }
static double bits_to_double(uint64_t r) { double f; memcpy(&f, &r, 8); return f; }
static std::vector<long long> parse_params(const std::string &s) { std::vector<long long> r; if (s == "-") return r; std::istringstream in(s); std::string t; while (getline(in, t, ',')) r.push_back(strtoll(t.c_str(), nullptr, 10)); return r; }
static std::string unescape(std::string t) { std::string r; for (size_t i = 0; i < t.size(); ++i) { if (t[i] == '\\' && i + 1 < t.size()) { ++i; if (t[i] == 'n') r += '\n'; else if (t[i] == 's') r += ' '; else r += t[i]; } else r += t[i]; } return r; }
static std::string escape(const std::string &t) { std::string r; for (char c : t) { if (c == '\n') r += "\\n"; else if (c == '\\') r += "\\\\"; else r += c; } return r; }
'''

MAIN = r'''
int main() {
  setvbuf(stdout, nullptr, _IOLBF, 1 << 16);
  std::string line;
  char *buf = nullptr; size_t cap = 0; ssize_t n;
  while ((n = getline(&buf, &cap, stdin)) > 0) {
    line.assign(buf, n); if (!line.empty() && line.back() == '\n') line.pop_back();
    ++op_index; std::istringstream in(line); std::string op; in >> op;
    if (op == "Z") { slots.clear(); for (auto &kv : arenas) { __asan_unpoison_memory_region(kv.second.mem, kv.second.cap); free(kv.second.mem); } arenas.clear();
    } else if (op == "A") { std::string name, hexs; size_t base; in >> name >> hexs >> base; if (hexs == "-") hexs = "";
      Arena a; a.cap = 512; a.mem = (unsigned char *)aligned_alloc(64, a.cap); memset(a.mem, 0xEE, a.cap); a.base = 64 + base; a.len = hexs.size() / 2;
      for (size_t i = 0; i < a.len; ++i) a.mem[a.base + i] = (unsigned char)strtoul(hexs.substr(2 * i, 2).c_str(), nullptr, 16);
      arenas[name] = a; repoison(arenas[name]);
    } else if (op == "D") { std::string name, hexs; in >> name >> hexs; Arena &a = arenas[name]; __asan_unpoison_memory_region(a.mem, a.cap);
      for (size_t i = 0; i < hexs.size() / 2; ++i) a.mem[a.base + a.len + i] = (unsigned char)strtoul(hexs.substr(2 * i, 2).c_str(), nullptr, 16);
      a.len += hexs.size() / 2; repoison(a);
    } else if (op == "S") { std::string name, hexs; size_t off; in >> name >> off >> hexs; Arena &a = arenas[name];
      for (size_t i = 0; i < hexs.size() / 2; ++i) a.mem[a.base + off + i] = (unsigned char)strtoul(hexs.substr(2 * i, 2).c_str(), nullptr, 16);
    } else if (op == "F") { std::string name; size_t bit; in >> name >> bit; Arena &a = arenas[name]; a.mem[a.base + bit / 8] ^= (unsigned char)(1u << (bit % 8));
    } else if (op == "X") { std::string slot, kind; size_t arg; in >> slot >> kind >> arg; std::string &t = slots[slot];
      if (kind == "trunc" && arg < t.size()) t.resize(arg);
      else if (kind == "drop" && arg < t.size()) t.erase(arg, 1);
      else if (kind == "dup" && arg < t.size()) t.insert(arg, 1, t[arg]);
      else if (kind == "nine" && arg < t.size()) t[arg] = '9';
      out("text", escape(t));
    } else if (op == "B") { std::string name; in >> name; Arena &a = arenas[name]; out("bytes", hex(a.mem + a.base, a.len));
    } else { dispatch(op, in); }
    printf("%ld !done\n", op_index);
  }
  return 0;
}
'''


def cpp_name(snake):
    return snake


_MODULE = [None]  # the module a driver is being generated for (for qualified C++ names of inline enums)


def cpp_enum(name):
    m = _MODULE[0]
    if m is None:
        return f"sim::{name}"
    return D.cpp_type_name(m, m.enum(name))


def ctype_for_param(p):
    _n, k, bits = p
    if k == "UInt":
        return f"uint{_round(bits)}_t"
    if k == "Int":
        return f"int{_round(bits)}_t"
    return cpp_enum(k)


def _round(bits):
    for w in (8, 16, 32, 64):
        if bits <= w:
            return w
    return 64


class DriverGen:
    def __init__(self, module, want, aligned=0):
        self.m = module
        self.want = set(want)  # subset of {"write", "copy", "equals", "text"}
        self.aligned = aligned  # 0, or the alignment N for which MakeAligned<Name>View<unsigned char, N> is instantiated
        self.out = []

    def named_fields(self, sd):
        res = []
        for f in sd.fields:
            if isinstance(f.type, D.AnonBits):
                for mem in f.type.members:
                    res.append(mem)
            else:
                res.append(f)
        return res

    def emit_observe(self, sd):
        o = self.out
        head = "obs_head_bytes" if sd.kind == "struct" else "obs_head_bits"
        o.append(f"template <class View> static void observe_{sd.name}(const std::string &p, View v, int depth) {{")
        o.append(f"  {head}(p, v);")
        for f in self.named_fields(sd):
            n = f.name
            o.append(f'  out(p + ".has_{n}", maybe(v.has_{n}()));')
            if f.is_virtual:
                o.append(f'  obs_virtual(p + ".{n}", v.{n}());')
            elif isinstance(f.type, D.Scalar):
                o.append(f'  obs_scalar(p + ".{n}", v.{n}());')
            elif isinstance(f.type, D.StructRef):
                o.append(f'  if (v.has_{n}().ValueOr(false) && depth < 3) observe_{f.type.name}(p + ".{n}", v.{n}(), depth + 1); else out(p + ".{n}.ok", b(v.{n}().Ok()));')
            elif isinstance(f.type, D.ArrayT):
                o.append(f'  if (v.has_{n}().ValueOr(false)) {{ auto a = v.{n}(); out(p + ".{n}.ok", b(a.Ok())); bool c = a.IsComplete(); out(p + ".{n}.complete", b(c));')
                o.append(f'    size_t cnt = a.ElementCount(); out(p + ".{n}.count", num(cnt)); size_t lim = c ? (cnt < 8 ? cnt : 8) : 0; out(p + ".{n}.observed_elems", num(lim));')
                if isinstance(f.type.elem, D.StructRef):
                    o.append(f'    for (size_t i = 0; i < lim; ++i) observe_{f.type.elem.name}(p + ".{n}[" + num(i) + "]", a[i], depth + 1);')
                else:
                    o.append(f'    for (size_t i = 0; i < lim; ++i) obs_elem(p + ".{n}[" + num(i) + "]", a[i]);')
                o.append(f'  }} else out(p + ".{n}.ok", b(v.{n}().Ok()));')
        o.append("}")

    def make_call(self, sd, arena, off, ln, pv="pv", aligned=False):
        args = []
        for i, p in enumerate(sd.params):
            args.append(f"static_cast<{ctype_for_param(p)}>({pv}[{i}])")
        args += [f"ptr({arena}, {off})", ln]
        ns = self.m.namespace + ("lib" if D.in_lib(self.m, sd) else "")
        if aligned:
            return f"{ns}::MakeAligned{sd.name}View<unsigned char, {self.aligned}>({', '.join(args)})"
        return f"{ns}::Make{sd.name}View({', '.join(args)})"

    def null_type(self, sd):
        args = [f"{ctype_for_param(p)}()" for p in sd.params] + ["static_cast<unsigned char *>(nullptr)", "size_t(0)"]
        ns = self.m.namespace + ("lib" if D.in_lib(self.m, sd) else "")
        return f"decltype({ns}::Make{sd.name}View({', '.join(args)}))"

    def write_paths(self, sd, prefix_expr="v", prefix_path="", depth=0):
        """Yields (path, accessor expression, kind, enum name) for writable scalars."""
        for f in self.named_fields(sd):
            path = prefix_path + f.name
            acc = f"{prefix_expr}.{f.name}()"
            if f.is_virtual:
                if getattr(f, "writable", False):
                    yield path, acc, "int", None
                continue
            t = f.type
            if isinstance(t, D.Scalar):
                if t.kind == "Float":
                    yield path, acc, f"float{t.bits}", None
                    continue
                yield path, acc, ("bool" if t.kind == "Flag" else "enum" if t.kind == "Enum" else "int"), t.enum
            elif isinstance(t, D.StructRef) and depth < 2:
                yield from self.write_paths(self.m.struct(t.name), acc, path + ".", depth + 1)
            elif isinstance(t, D.ArrayT):
                for i in range(3):
                    if isinstance(t.elem, D.Scalar):
                        if t.elem.kind == "Float":
                            yield f"{path}[{i}]", f"ELEM({acc}, {i})", f"float{t.elem_bits}", None
                            continue
                        k = "bool" if t.elem.kind == "Flag" else "enum" if t.elem.kind == "Enum" else "int"
                        yield f"{path}[{i}]", f"ELEM({acc}, {i})", k, t.elem.enum
                    elif depth < 1:
                        # struct elements: descend one level, guarded by the element count
                        sub = self.m.struct(t.elem.name)
                        for p2, a2, k2, e2 in self.write_paths(sub, f"{acc}[{i}]", f"{path}[{i}].", depth + 2):
                            yield p2, f"GUARD({acc}, {i}, {a2})", k2, e2

    def emit_top(self, sd):
        o = self.out
        n = sd.name
        if self.aligned:
            o.append(f"static void observe_top_{n}(const std::vector<long long> &pv, Arena &a, size_t off, size_t len, bool al) {{ (void)pv; "
                     f"if (al) observe_{n}(\"v\", {self.make_call(sd, 'a', 'off', 'len', aligned=True)}, 0); else observe_{n}(\"v\", {self.make_call(sd, 'a', 'off', 'len')}, 0); }}")
        else:
            o.append(f"static void observe_top_{n}(const std::vector<long long> &pv, Arena &a, size_t off, size_t len, bool al) {{ (void)pv; (void)al; observe_{n}(\"v\", {self.make_call(sd, 'a', 'off', 'len')}, 0); }}")
        o.append(f"static void observe_null_{n}() {{ {self.null_type(sd)} v; observe_{n}(\"v\", v, 0); }}")
        if "write" in self.want:
            variants = [("", False)] + ([("_al", True)] if self.aligned else [])
            for suffix, al in variants:
              o.append(f"static std::string write_{n}{suffix}(const std::vector<long long> &pv, Arena &a, size_t off, size_t len, const std::string &path, bool neg, uint64_t mag) {{ (void)pv;")
              o.append(f"  auto v = {self.make_call(sd, 'a', 'off', 'len', aligned=al)};")
              for path, acc, kind, enum in self.write_paths(sd):
                  if kind == "int":
                      body = f"(neg ? try_write(X, static_cast<int64_t>(0 - mag)) : try_write(X, mag))"
                  elif kind == "bool":
                      body = "try_write(X, mag != 0)"
                  elif kind == "float32":
                      body = "try_write(X, bits_to_float(static_cast<uint32_t>(mag)))"
                  elif kind == "float64":
                      body = "try_write(X, bits_to_double(mag))"
                  else:
                      body = f"try_write(X, static_cast<{cpp_enum(enum)}>(neg ? static_cast<int64_t>(0 - mag) : static_cast<int64_t>(mag)))"
                  if acc.startswith("ELEM("):
                      arr, idx = acc[5:-1].rsplit(", ", 1)
                      o.append(f'  if (path == "{path}") {{ auto arr = {arr}; if ({idx} < arr.ElementCount()) {{ auto X = arr[{idx}]; return {body.replace("X", "X")}; }} return "--"; }}')
                  elif acc.startswith("GUARD("):
                      inner = acc[6:-1]
                      arr, idx, acc2 = inner.split(", ", 2)
                      o.append(f'  if (path == "{path}") {{ auto arr = {arr}; if ({idx} < arr.ElementCount()) {{ auto X = {acc2}; return {body}; }} return "--"; }}')
                  else:
                      o.append(f'  if (path == "{path}") {{ auto X = {acc}; return {body}; }}')
              o.append('  return "??";\n}')
        if "copy" in self.want:
            o.append(f"static void copy_{n}(const std::vector<long long> &pv, Arena &d, size_t doff, size_t dlen, Arena &s, size_t soff, size_t slen) {{ (void)pv;")
            o.append(f"  auto dv = {self.make_call(sd, 'd', 'doff', 'dlen')}; auto sv = {self.make_call(sd, 's', 'soff', 'slen')};")
            o.append('  out("copy", b(dv.TryToCopyFrom(sv))); }')
        if "equals" in self.want:
            o.append(f"static void equals_{n}(const std::vector<long long> &pv, Arena &d, size_t doff, size_t dlen, Arena &s, size_t soff, size_t slen) {{ (void)pv;")
            o.append(f"  auto dv = {self.make_call(sd, 'd', 'doff', 'dlen')}; auto sv = {self.make_call(sd, 's', 'soff', 'slen')};")
            o.append('  if (dv.Ok() && sv.Ok()) out("equals", b(dv.Equals(sv)) + b(sv.Equals(dv))); else out("equals", "n/a"); }')
        if "text" in self.want:
            o.append(f"static void dump_{n}(const std::vector<long long> &pv, Arena &a, size_t off, size_t len, int ml, int cm, int grp, int base, const std::string &slot) {{ (void)pv;")
            o.append(f"  auto v = {self.make_call(sd, 'a', 'off', 'len')};")
            o.append("  auto o = ::emboss::TextOutputOptions().Multiline(ml).WithComments(cm).WithDigitGrouping(grp).WithNumericBase(base).WithAllowPartialOutput(!v.Ok());")
            o.append('  std::string t = ::emboss::WriteToString(v, o); slots[slot] = t; out("text", escape(t)); }')
            o.append(f"static void restore_{n}(const std::vector<long long> &pv, Arena &a, size_t off, size_t len, const std::string &text) {{ (void)pv;")
            o.append(f"  auto v = {self.make_call(sd, 'a', 'off', 'len')};")
            o.append('  out("restore", b(::emboss::UpdateFromText(v, text))); }')

    def emit_dispatch(self, tops):
        o = self.out
        o.append("static void dispatch(const std::string &op, std::istringstream &in) {")
        o.append("  std::string st, ps; in >> st; ")
        o.append('  if (op == "N") {')
        for sd in tops:
            o.append(f'    if (st == "{sd.name}") observe_null_{sd.name}();')
        o.append("    return; }")
        o.append("  in >> ps; std::vector<long long> pv = parse_params(ps); pv.resize(8);")
        o.append("  std::string an; size_t off, len; in >> an >> off >> len; Arena &a = arenas[an];")
        o.append('  if (op == "O") { std::string al; in >> al; bool aligned = al == "A";')
        for sd in tops:
            o.append(f'    if (st == "{sd.name}") observe_top_{sd.name}(pv, a, off, len, aligned);')
        o.append("  }")
        if "write" in self.want:
            o.append('  if (op == "W") { std::string path, v, al; in >> path >> v >> al; bool aligned = al == "A"; (void)aligned; bool neg = v[0] == \'-\'; uint64_t mag = strtoull(v.c_str() + (neg ? 1 : 0), nullptr, 10); std::string r;')
            for sd in tops:
                if self.aligned:
                    o.append(f'    if (st == "{sd.name}") r = aligned ? write_{sd.name}_al(pv, a, off, len, path, neg, mag) : write_{sd.name}(pv, a, off, len, path, neg, mag);')
                else:
                    o.append(f'    if (st == "{sd.name}") r = write_{sd.name}(pv, a, off, len, path, neg, mag);')
            o.append('    out("write", r); out("bytes", hex(a.mem + a.base, a.len)); }')
        if "copy" in self.want or "equals" in self.want:
            o.append('  if (op == "C" || op == "E") { std::string sn; size_t soff, slen; in >> sn >> soff >> slen; Arena &s = arenas[sn];')
            for sd in tops:
                if "copy" in self.want:
                    o.append(f'    if (op == "C" && st == "{sd.name}") copy_{sd.name}(pv, a, off, len, s, soff, slen);')
                if "equals" in self.want:
                    o.append(f'    if (op == "E" && st == "{sd.name}") equals_{sd.name}(pv, a, off, len, s, soff, slen);')
            o.append('    if (op == "C") { out("dst", hex(a.mem + a.base, a.len)); out("src", hex(s.mem + s.base, s.len)); } }')
        if "text" in self.want:
            o.append('  if (op == "T") { int ml, cm, grp, base; std::string slot; in >> ml >> cm >> grp >> base >> slot;')
            for sd in tops:
                o.append(f'    if (st == "{sd.name}") dump_{sd.name}(pv, a, off, len, ml, cm, grp, base, slot);')
            o.append("  }")
            o.append('  if (op == "R") { std::string text; getline(in, text); if (!text.empty() && text[0] == \' \') text.erase(0, 1);')
            o.append('    if (!text.empty() && text[0] == \'@\') text = slots[text.substr(1)]; else text = unescape(text);')
            for sd in tops:
                o.append(f'    if (st == "{sd.name}") restore_{sd.name}(pv, a, off, len, text);')
            o.append('    out("bytes", hex(a.mem + a.base, a.len)); }')
        o.append("}")

    def generate(self, header_name):
        _MODULE[0] = self.m
        self.out = [f'#include "{header_name}"', PRELUDE]
        for sd in self.m.structs:
            self.emit_observe(sd)
        tops = [sd for sd in self.m.structs if sd.kind == "struct" and not getattr(sd, "parent", None)]
        for sd in tops:
            self.emit_top(sd)
        self.emit_dispatch(tops)
        self.out.append(MAIN)
        return "\n".join(self.out) + "\n"
