"""Seeded generator of protocol modules (World B).  Builds a desc.ModuleDef whose
meaning is known by construction; feature weights are drawn per run (swarm).
Obeys the acceptance rules of DESIGN.md Appendix B so that most modules are
accepted by the real compiler; rejected ones are counted and skipped.
"""

from worldb import desc as D

WORDS = ["alpha", "bravo", "chunk", "delta", "echo", "frame", "gamma", "hotel", "index", "jolt", "kilo", "lima",
         "motor", "nova", "oscar", "papa", "quark", "rate", "sigma", "tango", "unit", "vector", "width", "xray",
         "yoke", "zone", "amber", "birch", "cedar", "dune", "ember", "flint", "grove", "heron", "iris", "jade"]

FEATURES = ["enums", "signed_enum", "bits_type", "anon_bits", "leaf_struct", "params", "cond", "dyn_array",
            "struct_array", "param_struct_array", "next", "virtuals", "transforms", "requires", "struct_requires",
            "union", "dyn_offset", "bcd", "float", "skip", "no_default_order", "wide", "int_fields", "max_present",
            "nested_cond", "bits_array", "struct_default_order", "emit_attr", "inline_types", "dyn_struct", "imports"]


class Names:
    def __init__(self, rng):
        self.rng, self.used = rng, set()

    def snake(self):
        while True:
            n = self.rng.choice(WORDS)
            if self.rng.random() < 0.5:
                n += "_" + self.rng.choice(WORDS)
            if n not in self.used and not n.startswith("has_"):
                self.used.add(n)
                return n

    def camel(self):
        while True:
            n = self.rng.choice(WORDS).capitalize() + self.rng.choice(WORDS).capitalize()
            if n.lower() not in self.used:
                self.used.add(n.lower())
                return n

    def shouty(self):
        while True:
            n = self.rng.choice(WORDS).upper() + "_" + self.rng.choice(WORDS).upper()
            if n not in self.used:
                self.used.add(n)
                return n


def draw_features(rng):
    p = rng.choice([0.3, 0.5, 0.7])
    feats = {f for f in FEATURES if rng.random() < p}
    for rare in ("signed_enum", "no_default_order", "wide"):
        if rng.random() < 0.6:
            feats.discard(rare)
    return feats


class IntSrc:
    """An integer-valued thing an expression may mention: expr, bounds."""

    def __init__(self, expr, lo, hi, name=None, writable=False):
        self.expr, self.lo, self.hi, self.name, self.writable = expr, lo, hi, name, writable


class Gen:
    def __init__(self, rng, feats):
        self.rng, self.f = rng, feats
        self.names = Names(rng)
        self.enums = []
        self.structs = []
        self.leafs = []      # (StructDef, size_units) fixed-size struct types usable as fields
        self.dyn_structs = []  # StructDef whose size depends on its contents
        self.bits_types = []  # (StructDef, bits)
        self.default_order = None if "no_default_order" in feats else rng.choice(["LittleEndian", "BigEndian"])
        self.module_default_order = self.default_order

    # -- helpers
    def draw_struct_default(self):
        """Possibly gives the struct being generated its own [$default byte_order]; returns it (or None)."""
        self.default_order = self.module_default_order
        if "struct_default_order" in self.f and self.rng.random() < 0.5:
            d = self.rng.choice(["LittleEndian", "BigEndian"])
            self.default_order = d
            return d
        return None

    def order_attr(self, nbytes):
        """byte_order attribute text for a field of nbytes bytes."""
        if nbytes <= 1:
            return None if self.rng.random() < 0.8 else None
        if self.default_order is None:
            return self.rng.choice(["LittleEndian", "BigEndian"])
        if self.rng.random() < 0.25:
            return self.rng.choice(["LittleEndian", "BigEndian"])
        return None

    def pick_width_bytes(self):
        if "wide" in self.f:
            return self.rng.choice([1, 1, 2, 3, 4, 5, 7, 8, 8])
        return self.rng.choice([1, 1, 1, 2, 2, 3, 4])

    def pick_width_bits(self, room):
        cands = [w for w in (1, 1, 2, 3, 4, 5, 7, 8, 9, 12, 15, 16, 17, 24, 31, 32, 33, 63, 64) if w <= room]
        if "wide" not in self.f:
            cands = [w for w in cands if w <= 17] or cands[:1]
        return self.rng.choice(cands)

    # -- enums
    def make_enum(self):
        signed = "signed_enum" in self.f and self.rng.random() < 0.5
        max_bits = self.rng.choice([8, 8, 16, 32, 64])
        name = self.names.camel()
        n = self.rng.randint(2, 4)
        lo, hi = (-(1 << (min(max_bits, 8) - 1)), (1 << (min(max_bits, 8) - 1)) - 1) if signed else (0, (1 << min(max_bits, 8)) - 1)
        vals = set()
        while len(vals) < n:
            vals.add(self.rng.choice([lo, hi, 0, 1, 2, 3, 5, self.rng.randint(lo, hi)]))
        vals = sorted(vals)
        if signed and not any(v < 0 for v in vals):
            vals[0] = -1 if -1 not in vals else lo
            vals = sorted(set(vals))
        values = [(self.names.shouty(), v) for v in vals]
        e = D.EnumDef(name, values, max_bits, signed)
        self.enums.append(e)
        return e

    # -- scalar choice for struct fields (byte-sized)
    def scalar_for_struct(self, nbytes):
        kinds = ["UInt", "UInt"]
        if "int_fields" in self.f:
            kinds.append("Int")
        if "bcd" in self.f:
            kinds.append("Bcd")
        if "float" in self.f and nbytes in (4, 8):
            kinds += ["Float", "Float"]
        ok_enums = [e for e in self.enums if nbytes * 8 <= e.max_bits]
        if ok_enums:
            kinds.append("Enum")
        k = self.rng.choice(kinds)
        if k == "Enum":
            return D.Scalar("Enum", nbytes * 8, self.rng.choice(ok_enums).name)
        return D.Scalar(k, nbytes * 8)

    def scalar_for_bits(self, width):
        kinds = ["UInt", "UInt"]
        if width == 1:
            kinds += ["Flag", "Flag"]
        if "int_fields" in self.f and width >= 2:
            kinds.append("Int")
        if "bcd" in self.f:
            kinds.append("Bcd")
        ok_enums = [e for e in self.enums if width <= e.max_bits]
        if ok_enums and width >= 2:
            kinds.append("Enum")
        k = self.rng.choice(kinds)
        if k == "Enum":
            return D.Scalar("Enum", width, self.rng.choice(ok_enums).name)
        return D.Scalar(k, width)

    def bits_members(self, total_bits, exact=False):
        """Members filling (part of) a bits container."""
        members = []
        bit = 0
        while bit < total_bits and len(members) < 5:
            room = total_bits - bit
            w = self.pick_width_bits(room)
            if self.rng.random() < 0.15 and room - w > 0:
                bit += self.rng.randint(1, min(3, room - w))  # padding
            t = self.scalar_for_bits(w)
            f = D.Field(self.names.snake(), D.Const(bit), D.Const(w), t)
            self.maybe_requires(f)
            members.append(f)
            bit += w
            if self.rng.random() < 0.2:
                break
        if exact and bit < total_bits:
            # a named bits type must end exactly at its declared size
            members.append(D.Field(self.names.snake(), D.Const(bit), D.Const(total_bits - bit), D.Scalar("UInt", total_bits - bit)))
        return members

    def maybe_requires(self, f):
        if "requires" not in self.f or self.rng.random() > 0.2:
            return
        t = f.type
        if not isinstance(t, D.Scalar) or t.kind not in ("UInt", "Int", "Bcd"):
            return
        lo, hi = scalar_bounds(t)
        if hi - lo < 3:
            return
        k = self.rng.randint(lo + 1, min(hi - 1, lo + 200))
        op = self.rng.choice(["<=", ">=", "!=", "<"])
        f.requires = D.Bin(op, D.This(), D.Const(k))

    def make_bits_type(self):
        bits = self.rng.choice([8, 8, 16, 16, 24, 32] + ([64, 40] if "wide" in self.f else []))
        if "bits_array" in self.f and bits >= 16 and self.rng.random() < 0.6:
            # an array of small integers inside the bits type, then ordinary members
            ew = self.rng.choice([1, 2, 3, 4])
            n = self.rng.randint(2, min(6, (bits - 4) // ew))
            arr = D.Field(self.names.snake(), D.Const(0), D.Const(ew * n),
                          D.ArrayT(D.Scalar(self.rng.choice(["UInt", "UInt", "Int"]) if ew > 1 else "UInt", ew), ew, D.Const(n) if self.rng.random() < 0.6 else None))
            rest = self.bits_members(bits - ew * n, exact=True)
            for m in rest:
                m.start = D.Const(m.start.v + ew * n)
            sd = D.StructDef(self.names.camel(), "bits", fields=[arr] + rest)
            self.structs.append(sd)
            self.bits_types.append((sd, bits))
            return sd
        sd = D.StructDef(self.names.camel(), "bits", fields=self.bits_members(bits, exact=True))
        # make the declared size exact: the last member ends at `bits` or padding is implied by the field size
        if "virtuals" in self.f and self.rng.random() < 0.5:
            ints = [m for m in sd.fields if isinstance(m.type, D.Scalar) and m.type.kind in ("UInt", "Int") and m.type.bits <= 16]
            if ints:
                m = self.rng.choice(ints)
                sd.fields.append(D.Field(self.names.snake(), expr=D.Bin("+", D.Ref(m.name), D.Const(self.rng.randint(1, 9)))))
        self.structs.append(sd)
        self.bits_types.append((sd, bits))
        return sd

    def make_leaf_struct(self):
        """A fixed-size struct, optionally parameterised."""
        name = self.names.camel()
        struct_default = self.draw_struct_default()
        params = []
        if "params" in self.f and self.rng.random() < 0.7:
            pk = self.rng.choice(["UInt", "UInt", "Int"])
            params.append((self.names.snake(), pk, self.rng.choice([4, 8, 8, 16])))
        enum_param = None
        if "params" in self.f and self.enums and self.rng.random() < 0.35:
            enum_param = self.rng.choice(self.enums)
            params.append((self.names.snake(), enum_param.name, 0))
        fields = []
        off = 0
        ints = []
        for _ in range(self.rng.randint(1, 3)):
            nb = self.pick_width_bytes()
            if nb > 4:
                nb = 4
            t = self.scalar_for_struct(nb)
            f = D.Field(self.names.snake(), D.Const(off), D.Const(nb), t, byte_order=self.order_attr(nb))
            self.maybe_requires(f)
            fields.append(f)
            if t.kind in ("UInt", "Int") and nb <= 2:
                ints.append(f)
            off += nb
        if self.bits_types and self.rng.random() < 0.3:
            bt, bits = self.rng.choice(self.bits_types)
            nb = bits // 8
            fields.append(D.Field(self.names.snake(), D.Const(off), D.Const(nb), D.StructRef(bt.name), byte_order=self.order_attr(nb)))
            off += nb
        if enum_param is not None:
            # the enum parameter selects a virtual field and, through a virtual, is readable from outside
            vname, vval = self.rng.choice(enum_param.values)
            pn = params[-1][0]
            fields.append(D.Field(self.names.snake(), expr=D.Const(self.rng.randint(0, 50)),
                                  cond=D.Bin(self.rng.choice(["==", "!="]), D.Param(pn), D.EnumConst(enum_param.name, vname, vval))))
            fields.append(D.Field(self.names.snake(), expr=D.Bin("==", D.Param(pn), D.EnumConst(enum_param.name, vname, vval))))
        if params and params[0][1] in ("UInt", "Int") and ints and "virtuals" in self.f:
            fields.append(D.Field(self.names.snake(), expr=D.Bin("+", D.Ref(ints[0].name), D.Param(params[0][0]))))
        if params and params[0][1] in ("UInt", "Int") and self.rng.random() < 0.4 and "cond" in self.f:
            # a conditional *virtual* keeps the struct fixed-size
            lo, hi = param_bounds(params[0])
            k = self.rng.randint(lo, hi)
            fields.append(D.Field(self.names.snake(), expr=D.Const(self.rng.randint(0, 50)),
                                  cond=D.Bin(self.rng.choice([">", "<", "==", "!="]), D.Param(params[0][0]), D.Const(k))))
        sd = D.StructDef(name, "struct", params=params, fields=fields, default_byte_order=struct_default)
        self.structs.append(sd)
        self.leafs.append((sd, off))
        return sd

    def make_dyn_struct(self):
        """A structure whose size depends on its contents: a count, a payload of that many bytes and,
        optionally, a conditional trailer after the payload."""
        rng = self.rng
        name = self.names.camel()
        struct_default = self.draw_struct_default()
        n = self.names.snake()
        fields = [D.Field(n, D.Const(0), D.Const(1), D.Scalar("UInt", 8))]
        if "requires" in self.f and rng.random() < 0.4:
            fields[0].requires = D.Bin("<=", D.This(), D.Const(rng.choice([3, 5, 9])))
        ebytes = rng.choice([1, 1, 2])
        size = D.Ref(n) if ebytes == 1 else D.Bin("*", D.Ref(n), D.Const(ebytes))
        fields.append(D.Field(self.names.snake(), D.Const(1), size, D.ArrayT(D.Scalar("UInt", ebytes * 8), ebytes * 8, None),
                              byte_order=self.order_attr(ebytes)))
        if rng.random() < 0.5:
            c = D.Bin(rng.choice([">", ">=", "!="]), D.Ref(n), D.Const(rng.randint(0, 3)))
            start = D.Next() if ("next" in self.f and rng.random() < 0.5) else D.Bin("+", D.Const(1), size)
            fields.append(D.Field(self.names.snake(), start, D.Const(1), D.Scalar("UInt", 8), cond=c if "cond" in self.f else None))
        if "virtuals" in self.f and rng.random() < 0.5:
            fields.append(D.Field(self.names.snake(), expr=D.Bin("+", D.Ref(n), D.Const(rng.randint(1, 9)))))
        sd = D.StructDef(name, "struct", fields=fields, default_byte_order=struct_default)
        self.structs.append(sd)
        self.dyn_structs.append(sd)
        return sd

    # -- main structures
    def make_main(self):
        rng = self.rng
        name = self.names.camel()
        struct_default = self.draw_struct_default()
        fields = []
        ints = []    # IntSrc usable in expressions (small bounds)
        wide_ints = []  # 32-bit fields: operands whose sums, differences and products leave 32 bits
        bools = []   # (expr) boolean sources
        enum_fields = []  # (name, EnumDef)
        cur = 0       # static offset so far (None once dynamic)
        cur_expr = None
        budget = 40
        n_items = rng.randint(2, 8)

        def static_place(nb):
            nonlocal cur, cur_expr
            if cur is not None:
                start = D.Const(cur)
                cur += nb
                return start
            start = cur_expr
            if "next" in self.f and rng.random() < 0.6 and fields_phys():
                # `$next` is the end of the previous physical field in source order, which is
                # not necessarily where `cur_expr` points (unions, dynamically placed fields);
                # overlapping fields are legal, and the model resolves `$next` by its definition.
                start = D.Next()
            cur_expr = D.Bin("+", cur_expr, D.Const(nb))
            return start

        def fields_phys():
            return [f for f in fields if not f.is_virtual]

        def arg_for(param):
            if param[1] not in ("UInt", "Int"):
                e = self.enum_by_name(param[1])
                same = [n for n, ee in enum_fields if ee is e]
                if same and rng.random() < 0.6:
                    return D.Ref(rng.choice(same))
                vn, vv = rng.choice(e.values)
                return D.EnumConst(e.name, vn, vv)
            lo, hi = param_bounds(param)
            cands = [s for s in ints if lo <= s.lo and s.hi <= hi]
            if cands and rng.random() < 0.7:
                return rng.choice(cands).expr
            return D.Const(rng.randint(max(lo, -3), min(hi, 9)))

        def small_int_field(prefix_bits=None):
            """A UInt field with a small range: source of counts, tags and offsets."""
            nonlocal budget
            nb = 1
            t = D.Scalar("UInt", 8)
            f = D.Field(self.names.snake(), static_place(nb), D.Const(nb), t)
            k = rng.choice([2, 3, 4, 6])
            if "requires" in self.f and rng.random() < 0.6:
                f.requires = D.Bin("<=", D.This(), D.Const(k))
                hi = k
            else:
                hi = 255
            fields.append(f)
            budget -= 1
            src = IntSrc(D.Ref(f.name), 0, hi, f.name, True)
            ints.append(src)
            return src

        def cond_expr():
            """A boolean expression over what exists so far (or None)."""
            opts = []
            if enum_fields:
                n, e = rng.choice(enum_fields)
                vname, v = rng.choice(e.values)
                opts.append(D.Bin(rng.choice(["==", "==", "!="]), D.Ref(n), D.EnumConst(e.name, vname, v)))
            if ints:
                s = rng.choice(ints)
                k = rng.randint(s.lo, min(s.hi, s.lo + 6))
                opts.append(D.Bin(rng.choice(["==", "!=", "<", "<=", ">", ">="]), s.expr, D.Const(k)))
            if bools:
                opts.append(rng.choice(bools))
            if not opts:
                return None
            c = rng.choice(opts)
            if "nested_cond" in self.f and len(opts) > 1 and rng.random() < 0.4:
                c = D.Bin(rng.choice(["&&", "||"]), c, rng.choice(opts))
            return c

        for _item in range(n_items):
            kinds = ["scalar", "scalar", "small_int"]
            if "enums" in self.f and self.enums:
                kinds.append("enum_tag")
            if "anon_bits" in self.f:
                kinds.append("anon_bits")
            if self.bits_types and "bits_type" in self.f:
                kinds.append("bits_field")
            if self.leafs and "leaf_struct" in self.f:
                kinds.append("struct_field")
            if "dyn_array" in self.f and ints:
                kinds += ["dyn_array", "dyn_array"]
            if "struct_array" in self.f and self.leafs:
                kinds.append("struct_array")
            if "union" in self.f and (enum_fields or ints) and cur is not None:
                kinds.append("union")
            if "dyn_offset" in self.f and ints and cur is not None:
                kinds.append("dyn_offset")
            if self.dyn_structs:
                kinds += ["dyn_struct_field"]
            kind = rng.choice(kinds)
            cond = None
            if "cond" in self.f and rng.random() < 0.35 and kind not in ("small_int", "enum_tag", "union"):
                cond = cond_expr()

            if kind == "small_int":
                small_int_field()
            elif kind == "scalar":
                nb = self.pick_width_bytes()
                t = self.scalar_for_struct(nb)
                f = D.Field(self.names.snake(), static_place(nb), D.Const(nb), t, cond=cond, byte_order=self.order_attr(nb))
                self.maybe_requires(f)
                if "skip" in self.f and rng.random() < 0.15:
                    f.skip = True
                fields.append(f)
                # a field marked Skip is absent from text output, so nothing may depend on it
                if t.kind in ("UInt", "Int") and nb <= 2 and cond is None and f.requires is None and not f.skip:
                    lo, hi = scalar_bounds(t)
                    ints.append(IntSrc(D.Ref(f.name), lo, hi, f.name, True))
                if t.kind in ("UInt", "Int") and nb == 4 and cond is None and f.requires is None and not f.skip:
                    lo, hi = scalar_bounds(t)
                    wide_ints.append(IntSrc(D.Ref(f.name), lo, hi, f.name, True))
                if t.kind == "Enum" and cond is None and not f.skip:
                    enum_fields.append((f.name, self.enum_by_name(t.enum)))
            elif kind == "enum_tag":
                ok = [e for e in self.enums if e.max_bits >= 8]
                if not ok:
                    continue
                e = rng.choice(ok)
                f = D.Field(self.names.snake(), static_place(1), D.Const(1), D.Scalar("Enum", 8, e.name))
                fields.append(f)
                enum_fields.append((f.name, e))
            elif kind == "anon_bits":
                nb = rng.choice([1, 1, 2, 4])
                members = self.bits_members(nb * 8)
                f = D.Field("anon%d" % len(fields), static_place(nb), D.Const(nb), D.AnonBits(members), cond=cond,
                            byte_order=self.order_attr(nb))
                fields.append(f)
                if cond is None:
                    for mem in members:
                        if mem.type.kind == "Flag":
                            bools.append(D.Ref(mem.name))
                        elif mem.type.kind == "UInt" and mem.type.bits <= 4 and mem.requires is None:
                            ints.append(IntSrc(D.Ref(mem.name), 0, (1 << mem.type.bits) - 1, mem.name, True))
                        elif mem.type.kind == "Enum":
                            enum_fields.append((mem.name, self.enum_by_name(mem.type.enum)))
            elif kind == "bits_field":
                bt, bits = rng.choice(self.bits_types)
                nb = bits // 8
                f = D.Field(self.names.snake(), static_place(nb), D.Const(nb), D.StructRef(bt.name), cond=cond,
                            byte_order=self.order_attr(nb))
                fields.append(f)
                if cond is None:
                    for mem in bt.fields:
                        if not mem.is_virtual and isinstance(mem.type, D.Scalar) and mem.type.kind == "UInt" and mem.type.bits <= 4 and mem.requires is None:
                            if rng.random() < 0.5:
                                ints.append(IntSrc(D.Ref(f.name, mem.name), 0, (1 << mem.type.bits) - 1))
            elif kind == "struct_field":
                sd, size = rng.choice(self.leafs)
                args = [arg_for(p) for p in sd.params]
                f = D.Field(self.names.snake(), static_place(size), D.Const(size), D.StructRef(sd.name, args), cond=cond)
                fields.append(f)
            elif kind == "dyn_array":
                srcs = [s for s in ints if s.lo >= 0]
                if rng.random() < 0.2:
                    srcs = [s for s in wide_ints if s.lo >= 0] or srcs  # a 32-bit length: start + size leaves 32 bits
                if not srcs:
                    continue
                src = rng.choice(srcs)
                ebytes = rng.choice([1, 1, 2, 4])
                et = self.scalar_for_struct(ebytes)
                if et.kind in ("Float", "Bcd") and rng.random() < 0.5:
                    et = D.Scalar("UInt", ebytes * 8)
                count = src.expr
                size = count if ebytes == 1 else D.Bin("*", count, D.Const(ebytes))
                if cur is not None:
                    start = D.Const(cur)
                    cur_expr = D.Bin("+", D.Const(cur), size)
                    cur = None
                else:
                    start = D.Next() if ("next" in self.f and rng.random() < 0.5) else cur_expr
                    cur_expr = D.Bin("+", cur_expr, size) if not isinstance(start, D.Next) else D.Bin("+", cur_expr, size)
                arr = D.ArrayT(et, ebytes * 8, None if rng.random() < 0.5 else count)
                f = D.Field(self.names.snake(), start, size, arr, cond=cond,
                            byte_order=self.order_attr(ebytes))
                fields.append(f)
            elif kind == "struct_array":
                cands = self.leafs if "param_struct_array" in self.f else [l for l in self.leafs if not l[0].params]
                if not cands:
                    continue
                sd, esize = rng.choice(cands)
                args = [arg_for(p) for p in sd.params]
                srcs = [s for s in ints if s.lo >= 0 and s.hi <= 255]
                if srcs and rng.random() < 0.6 and "dyn_array" in self.f:
                    src = rng.choice(srcs)
                    count = src.expr
                    size = D.Bin("*", count, D.Const(esize))
                    if cur is not None:
                        start = D.Const(cur)
                        cur_expr = D.Bin("+", D.Const(cur), size)
                        cur = None
                    else:
                        start = cur_expr
                        cur_expr = D.Bin("+", cur_expr, size)
                    arr = D.ArrayT(D.StructRef(sd.name, args), esize * 8, None if rng.random() < 0.5 else count)
                else:
                    n = rng.randint(1, 3)
                    size = D.Const(n * esize)
                    start = static_place(n * esize)
                    arr = D.ArrayT(D.StructRef(sd.name, args), esize * 8, D.Const(n) if rng.random() < 0.7 else None)
                fields.append(D.Field(self.names.snake(), start, size, arr, cond=cond))
            elif kind == "dyn_struct_field":
                # a nested structure of variable size in a slot that is fixed or itself dynamic
                sd2 = rng.choice(self.dyn_structs)
                srcs = [s for s in ints if s.lo >= 0 and s.hi <= 255]
                if srcs and rng.random() < 0.5:
                    size = rng.choice(srcs).expr
                    if cur is not None:
                        start = D.Const(cur)
                        cur_expr = D.Bin("+", D.Const(cur), size)
                        cur = None
                    else:
                        start = D.Next() if ("next" in self.f and rng.random() < 0.5) else cur_expr
                        cur_expr = D.Bin("+", cur_expr, size)
                else:
                    k = rng.choice([2, 3, 4, 6, 8])
                    size = D.Const(k)
                    start = static_place(k)
                fields.append(D.Field(self.names.snake(), start, size, D.StructRef(sd2.name), cond=cond))
            elif kind == "union":
                base = cur
                width = 0
                for _alt in range(rng.randint(2, 3)):
                    c = cond_expr()
                    if c is None:
                        break
                    nb = self.pick_width_bytes()
                    t = self.scalar_for_struct(nb)
                    f = D.Field(self.names.snake(), D.Const(base), D.Const(nb), t, cond=c, byte_order=self.order_attr(nb))
                    fields.append(f)
                    width = max(width, nb)
                cur = base + width
            elif kind == "dyn_offset":
                src = rng.choice([s for s in ints if s.lo >= 0] or [None])
                if src is None or src.hi > 255:
                    continue
                nb = rng.choice([1, 2])
                start = D.Bin("+", src.expr, D.Const(cur))
                f = D.Field(self.names.snake(), start, D.Const(nb), D.Scalar("UInt", nb * 8), cond=cond,
                            byte_order=self.order_attr(nb))
                fields.append(f)
                # later static fields keep using `cur`; the dynamically placed field may overlap them (legal)

        # virtual fields
        if "virtuals" in self.f:
            for _ in range(rng.randint(1, 4)):
                v = self.virtual_expr(ints, bools, enum_fields, wide_ints)
                if v is None:
                    break
                expr, lo, hi, is_int = v
                vf = D.Field(self.names.snake(), expr=expr)
                if "cond" in self.f and rng.random() < 0.2:
                    vf.cond = cond_expr()
                if is_int and "requires" in self.f and rng.random() < 0.15 and hi > lo:
                    vf.requires = D.Bin(rng.choice(["<=", ">=", "!="]), D.This(), D.Const(rng.randint(lo, min(hi, lo + 40))))
                fields.append(vf)
                if is_int and vf.cond is None and vf.requires is None and -(1 << 20) <= lo and hi <= (1 << 20):
                    ints.append(IntSrc(D.Ref(vf.name), lo, hi))
        if "transforms" in self.f:
            writable = [s for s in ints if s.writable]
            for _ in range(rng.randint(0, 2)):
                if not writable:
                    break
                s = rng.choice(writable)
                c = rng.choice([1, 2, 10, 100, 255, 1000])
                form = rng.choice(["alias", "plus", "minus", "rminus"])
                if form == "alias":
                    e = s.expr
                elif form == "plus":
                    e = D.Bin("+", s.expr, D.Const(c))
                elif form == "minus":
                    e = D.Bin("-", s.expr, D.Const(c))
                else:
                    e = D.Bin("-", D.Const(c), s.expr)
                vf = D.Field(self.names.snake(), expr=e)
                vf.writable = (s.name, form, c)
                if "requires" in self.f and rng.random() < 0.4:
                    lo, hi = {"alias": (s.lo, s.hi), "plus": (s.lo + c, s.hi + c), "minus": (s.lo - c, s.hi - c),
                              "rminus": (c - s.hi, c - s.lo)}[form]
                    k = rng.randint(lo, min(hi, lo + 300))
                    vf.requires = D.Bin(rng.choice(["<=", ">=", "!=", "<", ">"]), D.This(), D.Const(k))
                fields.append(vf)
        sd = D.StructDef(name, "struct", fields=fields, default_byte_order=struct_default)
        if "emit_attr" in self.f:
            for f in fields:
                if not f.skip and not isinstance(f.type, D.AnonBits) and rng.random() < 0.25:
                    f.emit = True
        if "struct_requires" in self.f and len(ints) >= 1 and rng.random() < 0.5:
            s = rng.choice(ints)
            sd.requires = D.Bin(rng.choice(["<=", "!=", ">="]), s.expr, D.Const(rng.randint(s.lo, min(s.hi, s.lo + 10))))
        self.structs.append(sd)
        return sd

    def enum_by_name(self, name):
        for e in self.enums:
            if e.name == name:
                return e
        raise KeyError(name)

    def virtual_expr(self, ints, bools, enum_fields, wide_ints=()):
        rng = self.rng
        small = [s for s in ints if -(1 << 16) <= s.lo and s.hi <= (1 << 16)]
        if wide_ints and rng.random() < 0.5:
            # arithmetic whose operands fit 32 bits and whose result does not
            a = rng.choice(list(wide_ints))
            b = rng.choice(list(wide_ints) + small + [IntSrc(D.Const(rng.choice([1, 2, 8, 255, 65536])), 0, 0)])
            if isinstance(b.expr, D.Const):
                b = IntSrc(b.expr, b.expr.v, b.expr.v)
            op = rng.choice(["+", "-", "+", "-", "*"])
            if op == "*":
                k = rng.choice([2, 3, 8, 256])
                return D.Bin("*", a.expr, D.Const(k)), min(a.lo * k, a.hi * k), max(a.lo * k, a.hi * k), True
            if rng.random() < 0.3:
                a, b = b, a
            if op == "+":
                return D.Bin("+", a.expr, b.expr), a.lo + b.lo, a.hi + b.hi, True
            return D.Bin("-", a.expr, b.expr), a.lo - b.hi, a.hi - b.lo, True
        forms = []
        if small:
            forms += ["arith", "arith", "cmp"]
            if "max_present" in self.f:
                forms.append("max")
            forms.append("choice")
        if bools:
            forms.append("bool")
        if not forms:
            return None
        form = rng.choice(forms)
        if form == "arith":
            a = rng.choice(small)
            b = rng.choice(small + [IntSrc(D.Const(rng.randint(0, 20)), 0, 20)])
            if isinstance(b.expr, D.Const):
                b = IntSrc(b.expr, b.expr.v, b.expr.v)
            op = rng.choice(["+", "-", "*"])
            if op == "+":
                lo, hi = a.lo + b.lo, a.hi + b.hi
            elif op == "-":
                lo, hi = a.lo - b.hi, a.hi - b.lo
            else:
                prods = [a.lo * b.lo, a.lo * b.hi, a.hi * b.lo, a.hi * b.hi]
                lo, hi = min(prods), max(prods)
            return D.Bin(op, a.expr, b.expr), lo, hi, True
        if form == "cmp":
            a = rng.choice(small)
            return D.Bin(rng.choice(["<", ">=", "==", "!="]), a.expr, D.Const(rng.randint(a.lo, min(a.hi, a.lo + 9)))), 0, 1, False
        if form == "max":
            a, b = rng.choice(small), rng.choice(small)
            return D.Max([a.expr, b.expr, D.Const(rng.randint(0, 9))]), min(a.lo, b.lo, 0), max(a.hi, b.hi, 9), True
        if form == "choice":
            a, b = rng.choice(small), rng.choice(small)
            c = D.Bin(rng.choice(["<", "==", ">"]), a.expr, D.Const(rng.randint(a.lo, min(a.hi, a.lo + 5))))
            return D.Cond(c, b.expr, D.Const(rng.randint(0, 9))), min(b.lo, 0), max(b.hi, 9), True
        b = rng.choice(bools)
        if len(bools) > 1 and rng.random() < 0.5:
            return D.Bin(rng.choice(["&&", "||"]), b, rng.choice(bools)), 0, 1, False
        return D.Bin("==", b, D.Const(rng.choice([True, False]))), 0, 1, False

    def module(self):
        rng = self.rng
        if "enums" in self.f:
            for _ in range(rng.randint(1, 2)):
                self.make_enum()
        if "bits_type" in self.f:
            for _ in range(rng.randint(1, 2)):
                self.make_bits_type()
        if "leaf_struct" in self.f or "struct_array" in self.f:
            for _ in range(rng.randint(1, 2)):
                self.make_leaf_struct()
        if "dyn_struct" in self.f:
            self.make_dyn_struct()
        mains = []
        for _ in range(rng.randint(1, 2)):
            mains.append(self.make_main())
        if "inline_types" in self.f:
            # some helper types become inline definitions inside a main structure (Outer.Inner)
            for t in list(self.enums) + [s for s in self.structs if s not in mains]:
                if rng.random() < 0.4 and not getattr(t, "params", None):
                    t.parent = rng.choice(mains).name
        m = D.ModuleDef("sim", self.module_default_order, self.enums, self.structs)
        m.mains = [s.name for s in mains]
        # parameterised helper structures are also observed directly, as top-level views with drawn arguments
        for sd, _size in self.leafs:
            if sd.params and not getattr(sd, "parent", None) and rng.random() < 0.5:
                m.mains.append(sd.name)
        # helper types in an imported file (only when none of them is an inline definition: a type
        # in the imported file could not refer to one defined inside a structure of the importing file)
        m.split = bool("imports" in self.f and len(self.structs) + len(self.enums) > len(mains)
                       and not any(getattr(t, "parent", None) for t in list(self.enums) + list(self.structs)))
        return m


def scalar_bounds(t):
    b = t.bits
    if t.kind == "UInt":
        return 0, (1 << b) - 1
    if t.kind == "Int":
        return -(1 << (b - 1)), (1 << (b - 1)) - 1
    if t.kind == "Bcd":
        digits, extra = divmod(b, 4)
        hi = 10 ** digits - 1
        if extra:
            hi += ((1 << extra) - 1) * 10 ** digits
        return 0, hi
    return 0, 1


def param_bounds(p):
    _n, k, b = p
    if k == "UInt":
        return 0, (1 << b) - 1
    if k == "Int":
        return -(1 << (b - 1)), (1 << (b - 1)) - 1
    return 0, 0


def gen_module(rng, feats=None):
    feats = draw_features(rng) if feats is None else feats
    g = Gen(rng, feats)
    m = g.module()
    m.features = sorted(feats)
    return m
