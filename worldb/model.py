"""Reference model: an interpreter of the *documented* emboss semantics over
(definition, parameters, bytes-or-missing).  Written from doc/language-reference.md,
doc/cpp-reference.md and doc/text-format.md; it never looks at the compiler's IR
or at the generated code.  Unknown is represented by None.
"""

import struct as _struct

from worldb import desc as D

UNSPEC = "<unspecified>"


class ByteStore:
    """`avail` bytes of arena `buf` starting at absolute index `lo`; ok=False is a null view."""

    __slots__ = ("buf", "lo", "avail", "ok")

    def __init__(self, buf, lo, avail, ok=True):
        self.buf, self.lo, self.avail, self.ok = buf, lo, max(0, avail), ok

    def sub(self, off, size):
        if not self.ok:
            return ByteStore(self.buf, 0, 0, False)
        if self.avail < off:
            return ByteStore(self.buf, self.lo + off, 0)
        return ByteStore(self.buf, self.lo + off, min(size, self.avail - off))

    @property
    def unit(self):
        return 8

    def size_units(self):
        return self.avail


class BitStore:
    """`width` bits starting at bit `off` of an integer container read from `src`
    (a ByteStore of exactly nbytes with a byte order), or of a parent BitStore."""

    __slots__ = ("parent", "order", "nbytes", "off", "width", "ok")

    def __init__(self, parent, order, nbytes, off, width, ok):
        self.parent, self.order, self.nbytes, self.off, self.width, self.ok = parent, order, nbytes, off, width, ok

    @staticmethod
    def over_bytes(bs, nbytes, order):
        ok = bs.ok and bs.avail == nbytes and nbytes <= 8
        return BitStore(bs, order, nbytes, 0, nbytes * 8, ok)

    def sub(self, off, size):
        ok = self.ok and off + size <= self.width
        return BitStore(self, None, 0, off, size, ok)

    @property
    def unit(self):
        return 1

    def size_units(self):
        return self.width if self.ok else 0

    def _root(self):
        s, off = self, 0
        while isinstance(s.parent, BitStore):
            off += s.off
            s = s.parent
        return s, off

    def read_uint(self):
        if not self.ok:
            return None
        root, off = self._root()
        if not root.ok:
            return None
        bs = root.parent
        raw = bytes(bs.buf[bs.lo: bs.lo + root.nbytes])
        v = int.from_bytes(raw, "big" if root.order == "BigEndian" else "little")
        return (v >> off) & ((1 << self.width) - 1)

    def write_uint(self, value):
        root, off = self._root()
        bs = root.parent
        raw = bytes(bs.buf[bs.lo: bs.lo + root.nbytes])
        order = "big" if root.order == "BigEndian" else "little"
        v = int.from_bytes(raw, order)
        mask = ((1 << self.width) - 1) << off
        v = (v & ~mask) | ((value << off) & mask)
        bs.buf[bs.lo: bs.lo + root.nbytes] = v.to_bytes(root.nbytes, order)


# ---------------------------------------------------------------------------
# scalar encode / decode


def scalar_range(t, module):
    """Numeric range (lo, hi) of representable values of a scalar of t.bits bits."""
    b = t.bits
    if t.kind == "UInt":
        return 0, (1 << b) - 1
    if t.kind == "Int":
        return -(1 << (b - 1)), (1 << (b - 1)) - 1
    if t.kind == "Flag":
        return 0, 1
    if t.kind == "Bcd":
        digits, extra = divmod(b, 4)
        hi = 10 ** digits - 1
        if extra:
            hi += ((1 << extra) - 1) * 10 ** digits
        return 0, hi
    if t.kind == "Enum":
        e = module.enum(t.enum)
        if e.signed:
            return -(1 << (b - 1)), (1 << (b - 1)) - 1
        return 0, (1 << b) - 1
    raise ValueError(t.kind)


def decode_scalar(t, raw, module):
    """raw: unsigned integer of t.bits bits -> value (int/bool/float bits) or None if invalid."""
    b = t.bits
    if t.kind == "UInt":
        return raw
    if t.kind == "Int":
        return raw - (1 << b) if raw >> (b - 1) else raw
    if t.kind == "Flag":
        return bool(raw)
    if t.kind == "Enum":
        e = module.enum(t.enum)
        if e.signed and raw >> (b - 1):
            return raw - (1 << b)
        return raw
    if t.kind == "Bcd":
        v, mul, r, left = 0, 1, raw, b
        while left > 0:
            nib = r & 0xF
            if left >= 4 and nib > 9:
                return None
            v += nib * mul
            mul *= 10
            r >>= 4
            left -= 4
        return v
    if t.kind == "Float":
        return ("f", raw)
    raise ValueError(t.kind)


def encode_scalar(t, v, module):
    b = t.bits
    if t.kind in ("UInt",):
        return v
    if t.kind in ("Int",) or (t.kind == "Enum"):
        return v & ((1 << b) - 1)
    if t.kind == "Flag":
        return 1 if v else 0
    if t.kind == "Bcd":
        raw, shift = 0, 0
        left = b
        while left > 0:
            if left >= 4:
                raw |= (v % 10) << shift
                v //= 10
            else:
                raw |= v << shift
                v = 0
            shift += 4
            left -= 4
        return raw
    if t.kind == "Float":
        return v[1]
    raise ValueError(t.kind)


# ---------------------------------------------------------------------------
# views


class Env:
    """A structure view: definition + parameter values + storage."""

    def __init__(self, module, sdef, params, store, params_ok=True, fold=False):
        self.m, self.s, self.params, self.store = module, sdef, params, store
        self.params_ok = params_ok
        self.fold = fold
        self._fields = None
        self._memo = {}
        self._busy = set()

    # -- field table: named fields incl. members promoted out of anonymous bits
    def fields(self):
        if self._fields is None:
            out = []
            for f in self.s.fields:
                if isinstance(f.type, D.AnonBits):
                    out.append((f.name, f, None))
                    for mem in f.type.members:
                        out.append((mem.name, mem, f))
                else:
                    out.append((f.name, f, None))
            self._fields = out
        return self._fields

    def lookup(self, name):
        for n, f, container in self.fields():
            if n == name:
                return f, container
        raise KeyError(name)

    def physical_in_order(self):
        return [f for f in self.s.fields if not f.is_virtual]

    # -- expression evaluation (three-valued); with fold=True an expression whose value is the
    # same for every completion of the unreadable operands (interval evaluation) is known
    def eval(self, e, this=None):
        v = self._eval3(e, this)
        if v is None and self.fold and this is None:
            iv = self.ival(e)
            if iv[0] == "i" and iv[1] == iv[2] and iv[1] not in (_NINF, _PINF):
                return iv[1]
            if iv[0] == "b" and len(iv[1]) == 1:
                return next(iter(iv[1]))
        return v

    def ival(self, e):
        """Interval of an integer expression ('i', lo, hi) or value set of a boolean one ('b', set)."""
        v = self._eval3(e, None)
        if v is True or v is False:
            return ("b", {v})
        if isinstance(v, int):
            return ("i", v, v)
        if isinstance(e, D.Ref):
            return self._static_range(e.path)
        if isinstance(e, D.Param):
            for n, k, b in self.s.params:
                if n == e.name:
                    if k == "UInt":
                        return ("i", 0, (1 << b) - 1)
                    if k == "Int":
                        return ("i", -(1 << (b - 1)), (1 << (b - 1)) - 1)
            return ("i", _NINF, _PINF)
        if isinstance(e, D.Present):
            return ("b", {True, False})
        if isinstance(e, D.Cond):
            c = self.ival(e.c)
            arms = []
            if True in c[1]:
                arms.append(self.ival(e.a))
            if False in c[1]:
                arms.append(self.ival(e.b))
            return _union(arms)
        if isinstance(e, D.Max):
            ivs = [self.ival(a) for a in e.args]
            return ("i", max(i[1] for i in ivs), max(i[2] for i in ivs))
        if isinstance(e, D.Bin):
            a, b = self.ival(e.a), self.ival(e.b)
            op = e.op
            if op in ("&&", "||"):
                out = set()
                for x in a[1]:
                    for y in b[1]:
                        out.add((x and y) if op == "&&" else (x or y))
                return ("b", out)
            if a[0] != "i" or b[0] != "i":
                if op in ("==", "!=") and a[0] == "b" and b[0] == "b":
                    out = set()
                    for x in a[1]:
                        for y in b[1]:
                            out.add((x == y) if op == "==" else (x != y))
                    return ("b", out)
                return ("b", {True, False})
            if op == "+":
                return ("i", a[1] + b[1], a[2] + b[2])
            if op == "-":
                return ("i", a[1] - b[2], a[2] - b[1])
            if op == "*":
                if _NINF in (a[1], b[1]) or _PINF in (a[2], b[2]):
                    return ("i", _NINF, _PINF)
                ps = [a[1] * b[1], a[1] * b[2], a[2] * b[1], a[2] * b[2]]
                return ("i", min(ps), max(ps))
            out = set()
            if op == "==":
                if a[1] == a[2] == b[1] == b[2]:
                    out = {True}
                elif a[2] < b[1] or b[2] < a[1]:
                    out = {False}
                else:
                    out = {True, False}
            elif op == "!=":
                if a[1] == a[2] == b[1] == b[2]:
                    out = {False}
                elif a[2] < b[1] or b[2] < a[1]:
                    out = {True}
                else:
                    out = {True, False}
            elif op == "<":
                out = {True} if a[2] < b[1] else {False} if a[1] >= b[2] else {True, False}
            elif op == "<=":
                out = {True} if a[2] <= b[1] else {False} if a[1] > b[2] else {True, False}
            elif op == ">":
                out = {True} if a[1] > b[2] else {False} if a[2] <= b[1] else {True, False}
            elif op == ">=":
                out = {True} if a[1] >= b[2] else {False} if a[2] < b[1] else {True, False}
            return ("b", out)
        return ("i", _NINF, _PINF)

    def _static_range(self, path):
        sd = self.s
        env = self
        for k, name in enumerate(path):
            f = None
            for g in sd.fields:
                if g.name == name:
                    f = g
                elif isinstance(g.type, D.AnonBits):
                    for mem in g.type.members:
                        if mem.name == name:
                            f = mem
            if f is None:
                return ("i", _NINF, _PINF)
            last = k == len(path) - 1
            if f.is_virtual:
                if last and env is not None:
                    return env.ival(f.expr)
                return ("i", _NINF, _PINF)
            t = f.type
            if last:
                if isinstance(t, D.Scalar):
                    if t.kind == "Flag":
                        return ("b", {True, False})
                    if t.kind == "Float":
                        return ("i", _NINF, _PINF)
                    lo, hi = scalar_range(t, self.m)
                    return ("i", lo, hi)
                return ("i", _NINF, _PINF)
            if not isinstance(t, D.StructRef):
                return ("i", _NINF, _PINF)
            sd = self.m.struct(t.name)
            env = None
        return ("i", _NINF, _PINF)

    def _eval3(self, e, this=None):
        if isinstance(e, D.Const):
            return e.v
        if isinstance(e, D.EnumConst):
            return e.value
        if isinstance(e, D.This):
            return this
        if isinstance(e, D.Param):
            if not self.params_ok:
                return None
            return self.params.get(e.name)
        if isinstance(e, D.Ref):
            return self.read_path(e.path)
        if isinstance(e, D.Present):
            return self.has_path(e.path)
        if isinstance(e, D.Next):
            raise ValueError("$next must be resolved by the caller")
        if isinstance(e, D.Cond):
            c = self.eval(e.c, this)
            if c is None:
                return None
            return self.eval(e.a if c else e.b, this)
        if isinstance(e, D.Max):
            vals = [self.eval(a, this) for a in e.args]
            if any(v is None for v in vals):
                return None
            return max(vals)
        if isinstance(e, D.Bin):
            a = self.eval(e.a, this)
            b = self.eval(e.b, this)
            op = e.op
            if op == "&&":
                if a is False or b is False:
                    return False
                if a is None or b is None:
                    return None
                return True
            if op == "||":
                if a is True or b is True:
                    return True
                if a is None or b is None:
                    return None
                return False
            if a is None or b is None:
                return None
            if isinstance(a, tuple) or isinstance(b, tuple):
                return None
            if op == "+":
                return a + b
            if op == "-":
                return a - b
            if op == "*":
                return a * b
            if op == "==":
                return a == b
            if op == "!=":
                return a != b
            if op == "<":
                return a < b
            if op == "<=":
                return a <= b
            if op == ">":
                return a > b
            if op == ">=":
                return a >= b
        raise TypeError(e)

    # -- presence
    def has(self, name):
        key = ("has", name)
        if key in self._memo:
            return self._memo[key]
        f, container = self.lookup(name)
        v = True if f.cond is None else self.eval(f.cond)
        if container is not None:
            c = True if container.cond is None else self.eval(container.cond)
            if c is False or v is False:
                v = False
            elif c is None or v is None:
                v = None
        self._memo[key] = v
        return v

    def has_path(self, path):
        env = self
        for name in path[:-1]:
            env = env.sub_env(name)
            if env is None:
                return None
        return env.has(path[-1])

    # -- location
    def _resolve_next(self, f):
        """start+size of the physical field that precedes f in source order."""
        phys = self.physical_in_order()
        container = None
        if f not in phys:
            return None
        i = phys.index(f)
        if i == 0:
            return None
        prev = phys[i - 1]
        loc = self.loc(prev)
        if loc is None:
            return None
        return loc[0] + loc[1]

    def _eval_loc_expr(self, e, f):
        if any(isinstance(x, D.Next) for x in D.walk(e)):
            nxt = self._resolve_next(f)
            if nxt is None:
                return None
            return self._eval_subst_next(e, nxt)
        return self.eval(e)

    def _eval_subst_next(self, e, nxt):
        if isinstance(e, D.Next):
            return nxt
        if isinstance(e, D.Bin):
            a = self._eval_subst_next(e.a, nxt)
            b = self._eval_subst_next(e.b, nxt)
            return Env.eval(self, D.Bin(e.op, D.Const(a) if a is not None else _UNK, D.Const(b) if b is not None else _UNK))
        return self.eval(e)

    def loc(self, f):
        """(start, size) in the struct's addressable units, or None if unknown."""
        key = ("loc", id(f))
        if key in self._memo:
            return self._memo[key]
        if key in self._busy:
            return None
        self._busy.add(key)
        try:
            start = self._eval_loc_expr(f.start, f)
            size = self._eval_loc_expr(f.size, f)
            v = None if start is None or size is None else (start, size)
        finally:
            self._busy.discard(key)
        self._memo[key] = v
        return v

    def field_store(self, name):
        """Storage of a physical field (None when absent/unknown location)."""
        f, container = self.lookup(name)
        if container is not None:
            cstore = self.field_store(container.name)
            if cstore is None:
                return None
            order = self._order(container)
            loc = self.loc(container)
            bits = BitStore.over_bytes(cstore, loc[1], order) if isinstance(cstore, ByteStore) else cstore
            # member location is evaluated inside the anonymous bits' own scope; the generator
            # only uses constant member locations
            mstart = Env.eval(self, f.start)
            msize = Env.eval(self, f.size)
            if mstart is None or msize is None or mstart < 0 or msize < 0:
                return None
            return bits.sub(mstart, msize)
        if self.has(name) is not True:
            return None
        loc = self.loc(f)
        if loc is None or loc[0] < 0 or loc[1] < 0:
            return None
        return self.store.sub(loc[0], loc[1])

    def _order(self, f):
        if f.byte_order:
            return f.byte_order
        # `$default` applies to the entity it is attached to and to all of its sub-entities, i.e. also
        # to types defined inline inside a structure that sets it
        sd = self.s
        while sd is not None:
            if getattr(sd, "default_byte_order", None):
                return sd.default_byte_order
            sd = self.m.struct(sd.parent) if getattr(sd, "parent", None) else None
        return self.m.default_byte_order or "Null"

    # -- sub-views
    def sub_env(self, name, index=None):
        """Env of an aggregate field (struct/bits typed), or of array element `index`."""
        f, container = self.lookup(name)
        st = self.field_store(name)
        t = f.type
        null = _NULL if self.s.kind == "struct" else BitStore(None, None, 0, 0, 0, False)
        if isinstance(t, D.ArrayT):
            if index is None or not isinstance(t.elem, D.StructRef):
                return None
            if st is None:
                st = null
            eunits = t.elem_bits // self.s.unit
            return self._make_env(t.elem, st.sub(index * eunits, eunits), f, eunits)
        if not isinstance(t, D.StructRef):
            return None
        loc = self.loc(f) if st is not None else None
        if st is None:
            # absent field or unknown/negative location: the accessor hands out a default-constructed
            # view, which has neither storage nor parameter values
            return self._make_env(t, null, f, 0, default_view=True)
        return self._make_env(t, st, f, loc[1] if loc else 0)

    def _elem_params_known(self, f):
        t = f.type
        if isinstance(t, D.ArrayT) and isinstance(t.elem, D.StructRef):
            return all(self.eval(a) is not None for a in t.elem.args)
        return True

    def _make_env(self, ref, st, f, size_units, default_view=False):
        sd = self.m.struct(ref.name)
        if default_view:
            return Env(self.m, sd, {p[0]: None for p in sd.params}, st, params_ok=not sd.params, fold=self.fold)
        if sd.kind == "bits" and isinstance(st, ByteStore):
            # a bits type placed in a struct is one integer of the field's size, in the field's byte order
            st = BitStore.over_bytes(st, size_units, self._order(f))
        vals = {}
        ok = True
        for (pname, _k, _b), arg in zip(sd.params, ref.args):
            v = self.eval(arg)
            if v is None:
                ok = False
            vals[pname] = v
        if not ok:
            # A view whose parameters cannot be computed cannot be constructed over its bytes:
            # it behaves as a view without storage (the documents say nothing more specific).
            st = _NULL if isinstance(st, ByteStore) else BitStore(None, None, 0, 0, 0, False)
        return Env(self.m, sd, vals, st, params_ok=ok, fold=self.fold)

    # -- reading
    def read(self, name):
        """Value of a field, or None when it cannot be read (absent, truncated, invalid)."""
        key = ("read", name)
        if key in self._memo:
            return self._memo[key]
        if key in self._busy:
            return None
        self._busy.add(key)
        try:
            v = self._read(name)
        finally:
            self._busy.discard(key)
        self._memo[key] = v
        return v

    def _read(self, name):
        f, container = self.lookup(name)
        if self.has(name) is not True:
            return None
        if f.is_virtual:
            v = self.eval(f.expr)
            if v is None:
                return None
            if f.requires is not None and self.eval(f.requires, this=v) is not True:
                return None
            return v
        if not isinstance(f.type, D.Scalar):
            return None
        raw = self.read_raw(name)
        if raw is None:
            return None
        v = decode_scalar(f.type, raw, self.m)
        if v is None:
            return None
        if f.requires is not None and self.eval(f.requires, this=v) is not True:
            return None
        return v

    def read_raw(self, name):
        f, container = self.lookup(name)
        st = self.field_store(name)
        if st is None:
            return None
        t = f.type
        if isinstance(st, ByteStore):
            nbytes = t.bits // 8
            if not st.ok or st.avail != nbytes or t.bits % 8:
                return None
            raw = bytes(st.buf[st.lo: st.lo + nbytes])
            return int.from_bytes(raw, "big" if self._order(f) == "BigEndian" else "little")
        if st.width != t.bits:
            return None
        return st.read_uint()

    def read_path(self, path):
        env = self
        for name in path[:-1]:
            env = env.sub_env(name)
            if env is None:
                return None
        return env.read(path[-1])

    def scalar_complete(self, name):
        f, container = self.lookup(name)
        st = self.field_store(name)
        if st is None:
            return False
        if isinstance(st, ByteStore):
            return st.ok and st.avail * 8 == f.type.bits
        return st.ok and st.width == f.type.bits and st.read_uint() is not None

    # -- size / complete / ok
    def size(self):
        """$size_in_bytes / $size_in_bits, or None when unknown."""
        if "size" in self._memo:
            return self._memo["size"]
        end = 0
        known = True
        lo_bound, hi_bound = 0, 0   # interval of the size over all completions (fold mode)
        for f in self.s.fields:
            if f.is_virtual:
                continue
            h = True if f.cond is None else self.eval(f.cond)
            loc = self.loc(f) if h is not False else None
            if h is False:
                continue
            if loc is not None:
                e_lo = e_hi = loc[0] + loc[1]
            else:
                iv_s, iv_z = self._ival_loc(f.start, f), self._ival_loc(f.size, f)
                e_lo, e_hi = iv_s[1] + iv_z[1], iv_s[2] + iv_z[2]
            if h is True:
                lo_bound = max(lo_bound, e_lo)
            hi_bound = max(hi_bound, e_hi)
            if h is None or loc is None:
                known = False
                continue
            end = max(end, loc[0] + loc[1])
        v = end if known else None
        if v is None and self.fold and lo_bound == hi_bound and hi_bound not in (_NINF, _PINF):
            v = hi_bound
        self._memo["size"] = v
        return v

    def _ival_loc(self, e, f):
        if any(isinstance(x, D.Next) for x in D.walk(e)):
            return ("i", _NINF, _PINF)
        iv = self.ival(e)
        return iv if iv[0] == "i" else ("i", _NINF, _PINF)

    def complete(self):
        sz = self.size()
        if sz is None or not self.store.ok:
            return False
        return self.store.size_units() >= sz

    def field_ok(self, name):
        f, container = self.lookup(name)
        if self.has(name) is not True:
            return False
        if f.is_virtual or isinstance(f.type, D.Scalar):
            return self.read(name) is not None
        if isinstance(f.type, D.StructRef):
            sub = self.sub_env(name)
            return sub is not None and sub.ok()
        if isinstance(f.type, D.ArrayT):
            return self.array_ok(name)
        return False

    def ok(self):
        if "ok" in self._memo:
            return self._memo["ok"]
        v = self._ok()
        self._memo["ok"] = v
        return v

    def _ok(self):
        if not self.params_ok or not self.complete():
            return False
        for name, f, container in self.fields():
            if isinstance(f.type, D.AnonBits):
                h = True if f.cond is None else self.eval(f.cond)
                if h is None:
                    return False
                continue
            h = self.has(name)
            if h is None:
                return False
            if h and not self.field_ok(name):
                return False
        if self.s.requires is not None and self.eval(self.s.requires) is not True:
            return False
        return True

    # -- arrays
    def array_info(self, name):
        """(declared_count, elem_units) or None; declared per the .emb (documented semantics)."""
        f, _ = self.lookup(name)
        t = f.type
        loc = self.loc(f) if self.has(name) is True else None
        if loc is None or loc[1] < 0 or loc[0] < 0:
            return None
        if not self._elem_params_known(f):
            return None  # the element views cannot be constructed: the array accessor yields an empty view
        eunits = t.elem_bits // self.s.unit
        return loc[1] // eunits, eunits, loc

    def array_extent_present(self, name):
        info = self.array_info(name)
        if info is None:
            return False
        st = self.field_store(name)
        return st is not None and st.ok and st.size_units() >= info[2][1]

    def array_elem_read(self, name, i):
        f, _ = self.lookup(name)
        t = f.type
        st = self.field_store(name)
        if st is None:
            return None
        eunits = t.elem_bits // self.s.unit
        est = st.sub(i * eunits, eunits)
        if isinstance(est, ByteStore):
            if not est.ok or est.avail != eunits:
                return None
            raw = int.from_bytes(bytes(est.buf[est.lo: est.lo + eunits]),
                                 "big" if self._order(f) == "BigEndian" else "little")
        else:
            raw = est.read_uint()
            if raw is None:
                return None
        return decode_scalar(D.Scalar(t.elem.kind, t.elem_bits, t.elem.enum), raw, self.m)

    def array_ok(self, name):
        info = self.array_info(name)
        if info is None or not self.array_extent_present(name):
            return False
        f, _ = self.lookup(name)
        count = info[0]
        for i in range(count):
            if isinstance(f.type.elem, D.StructRef):
                e = self.sub_env(name, i)
                if e is None or not e.ok():
                    return False
            else:
                if self.array_elem_read(name, i) is None:
                    return False
        return True


_NINF = float("-inf")
_PINF = float("inf")


def _union(ivs):
    if not ivs:
        return ("i", _NINF, _PINF)
    if ivs[0][0] == "b":
        out = set()
        for i in ivs:
            if i[0] != "b":
                return ("b", {True, False})
            out |= i[1]
        return ("b", out)
    if any(i[0] != "i" for i in ivs):
        return ("i", _NINF, _PINF)
    return ("i", min(i[1] for i in ivs), max(i[2] for i in ivs))


_NULL = ByteStore(bytearray(), 0, 0, False)
_UNK = D.Ref("<unknown>")


def fixed_size_units(module, sd):
    """Size of a fixed-size struct/bits in its own units (generator keeps these constant)."""
    end = 0
    for f in sd.fields:
        if f.is_virtual:
            continue
        assert isinstance(f.start, D.Const) and isinstance(f.size, D.Const), sd.name
        end = max(end, f.start.v + f.size.v)
    return end


# ---------------------------------------------------------------------------
# observation: the list of key=value lines the driver prints for one view


def fmt_val(v):
    if v is True:
        return "1"
    if v is False:
        return "0"
    if isinstance(v, tuple):
        return "f%x" % v[1]
    return str(v)


def tri(v):
    return "?" if v is None else ("T" if v else "F")


MAX_ELEMS = 8


def observe(env, prefix, out, depth=0):
    """Appends (key, expected, facts) triples; facts["kind"] names the observable."""

    def add(key, value, kind, **facts):
        facts["kind"] = kind
        out.append((key, value, facts))

    add(prefix + ".ok", fmt_val(env.ok()), "struct.ok")
    add(prefix + ".complete", fmt_val(env.complete()), "struct.complete")
    sz = env.size()
    add(prefix + ".size_known", fmt_val(sz is not None), "struct.size_known")
    if sz is not None:
        add(prefix + ".size", str(sz), "struct.size")
    if _size_is_static(env):
        # every field unconditional at a constant location: the size constants are that size
        static = 0
        for f in env.s.fields:
            if not f.is_virtual:
                static = max(static, Env.eval(env, f.start) + Env.eval(env, f.size))
        add(prefix + ".max_size", str(static), "struct.max_size")
        add(prefix + ".min_size", str(static), "struct.min_size")
    for name, f, container in env.fields():
        if isinstance(f.type, D.AnonBits):
            continue
        h = env.has(name)
        add(f"{prefix}.has_{name}", tri(h), "has", in_anonymous_bits=container is not None)
        p = f"{prefix}.{name}"
        if f.is_virtual:
            v = env.read(name)
            add(p + ".ok", fmt_val(v is not None), "virtual.ok")
            if v is not None:
                add(p + ".val", fmt_val(v), "virtual.val")
            continue
        t = f.type
        if isinstance(t, D.Scalar):
            v = env.read(name)
            sk = "scalar." + t.kind.lower()
            add(p + ".complete", fmt_val(env.scalar_complete(name)) if h is True else "0", "scalar.complete", scalar=t.kind)
            add(p + ".ok", fmt_val(v is not None), "scalar.ok", scalar=t.kind)
            if v is not None:
                add(p + ".val", fmt_val(v), "scalar.val", scalar=t.kind, bits=t.bits,
                    signed_enum=bool(t.kind == "Enum" and env.m.enum(t.enum).signed))
        elif isinstance(t, D.StructRef):
            if h is True and depth < 3:
                sub = env.sub_env(name)
                observe(sub, p, out, depth + 1)
            else:
                add(p + ".ok", "0", "absent.ok")
        elif isinstance(t, D.ArrayT):
            if h is not True:
                add(p + ".ok", "0", "absent.ok")
                continue
            info = env.array_info(name)
            present = env.array_extent_present(name)
            exceeds = bool(info is not None and not present)
            add(p + ".ok", fmt_val(env.array_ok(name)), "array.ok", array_extent_exceeds_backing=exceeds)
            add(p + ".complete", fmt_val(info is not None and present), "array.complete", array_extent_exceeds_backing=exceeds)
            count = info[0] if info is not None else 0
            add(p + ".count", str(count), "array.count", array_extent_exceeds_backing=exceeds)
            n = min(count, MAX_ELEMS) if present else 0
            # Elements are observed only when the whole array is present: what an element of a
            # truncated array reports is covered by the array-level observables above.
            add(p + ".observed_elems", str(n), "array.observed_elems", array_extent_exceeds_backing=exceeds)
            for i in range(n):
                ep = f"{p}[{i}]"
                if isinstance(t.elem, D.StructRef):
                    observe(env.sub_env(name, i), ep, out, depth + 1)
                else:
                    v = env.array_elem_read(name, i)
                    add(ep + ".ok", fmt_val(v is not None), "elem.ok", scalar=t.elem.kind)
                    if v is not None:
                        add(ep + ".val", fmt_val(v), "elem.val", scalar=t.elem.kind)


def observe_both(make_env, prefix="v"):
    """Observation expectations: strict three-valued evaluation (A) and evaluation where every
    expression whose value is the same for all completions is known (B, what a compiler may fold).
    Where A and B differ either answer is accepted (a set); None in a set = the line may be absent."""
    a, b = [], []
    observe(make_env(False), prefix, a)
    observe(make_env(True), prefix, b)
    bd = {k: (v, f) for k, v, f in b}
    ad = {k: v for k, v, _f in a}
    out = []
    for k, v, f in a:
        if k in bd:
            out.append((k, v if bd[k][0] == v else frozenset([v, bd[k][0]]), f))
        else:
            out.append((k, frozenset([v, None]), f))
    for k, v, f in b:
        if k not in ad:
            out.append((k, frozenset([v, None]), f))
    return out


def _size_is_static(env):
    for f in env.s.fields:
        if f.is_virtual:
            continue
        if f.cond is not None:
            return False
        for e in (f.start, f.size):
            for x in D.walk(e):
                if not isinstance(x, (D.Const, D.Bin)):
                    return False
    return True


# ---------------------------------------------------------------------------
# writes (C03)


def representable(t, v, module):
    if t.kind == "Float":
        return True  # every value of the C++ floating-point type of the same width is stored bit for bit
    if t.kind == "Flag":
        return v in (0, 1, True, False)
    lo, hi = scalar_range(t, module)
    return lo <= v <= hi


def _env_write_raw(env, name, raw):
    f, container = env.lookup(name)
    st = env.field_store(name)
    if isinstance(st, ByteStore):
        n = f.type.bits // 8
        order = "big" if env._order(f) == "BigEndian" else "little"
        st.buf[st.lo: st.lo + n] = raw.to_bytes(n, order)
    else:
        st.write_uint(raw)
    env._memo.clear()


def could_write(env, name, v):
    """CouldWriteValue(v) per the documents: representable and satisfies [requires]."""
    f, container = env.lookup(name)
    if f.is_virtual:
        tgt = getattr(f, "writable", None)
        if not tgt:
            return None
        target, form, c = tgt
        x = v if form == "alias" else (v - c if form == "plus" else v + c if form == "minus" else c - v)
        if f.requires is not None and env.eval(f.requires, this=v) is not True:
            return False  # the virtual field's own [requires] is about the value the caller passes
        return could_write(env, target, x)
    t = f.type
    if not representable(t, v, env.m):
        return False
    if f.requires is not None:
        val = bool(v) if t.kind == "Flag" else v
        r = env.eval(f.requires, this=val)
        if r is not True:
            return False
    return True


def try_write(env, name, v):
    """Returns success; applies the effect to the model's arena on success."""
    f, container = env.lookup(name)
    if f.is_virtual:
        tgt = getattr(f, "writable", None)
        if not tgt:
            return None
        target, form, c = tgt
        x = v if form == "alias" else (v - c if form == "plus" else v + c if form == "minus" else c - v)
        if env.has(name) is not True:
            return False
        if could_write(env, name, v) is not True:
            return False
        return try_write(env, target, x)
    if not could_write(env, name, v):
        return False
    if env.has(name) is not True or not env.scalar_complete(name):
        return False
    _env_write_raw(env, name, encode_scalar(f.type, v, env.m))
    return True


Env.write_raw = _env_write_raw
