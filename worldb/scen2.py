"""Scenarios and comparisons for writes (C03), hostile buffers (C04), text (C06), copy/equals (C20)."""

from worldb import desc as D
from worldb import driver as drv
from worldb import model as M
from worldb import model2
from worldb import scen

_paths_cache = {}


def write_paths(module, st):
    key = (id(module), st)
    if key not in _paths_cache:
        g = drv.DriverGen(module, ["write"])
        _paths_cache[key] = [p for p, _a, _k, _e in g.write_paths(module.struct(st))]
    return _paths_cache[key]


def _message(rng, module, sd, params, kind):
    """(bytes, valid) for a sender's buffer of the given kind."""
    if kind == "garbage":
        return bytes(rng.getrandbits(8) for _ in range(rng.randint(0, 48))), False
    r = scen.synth_message(rng, module, sd, params, satisfy=0.4 if kind == "broken" else 0.95)
    if r is None:
        return bytes(rng.getrandbits(8) for _ in range(rng.randint(0, 48))), False
    msg, valid = r
    if kind == "truncated" and len(msg) > 0:
        msg, valid = msg[: rng.randrange(len(msg))], False
    elif kind == "flipped" and len(msg) > 0:
        b = bytearray(msg)
        for _ in range(rng.randint(1, 3)):
            i = rng.randrange(len(b) * 8)
            b[i // 8] ^= 1 << (i % 8)
        msg, valid = bytes(b), False
    elif kind == "oversized":
        msg = msg + bytes(rng.getrandbits(8) for _ in range(rng.randint(1, 9)))
    return msg, valid


def scenario_writes(rng, module, cfg, hostile=False):
    st = rng.choice(module.mains)
    sd = module.struct(st)
    params = scen.draw_params(rng, sd, module)
    kinds = ["valid", "valid", "valid", "truncated", "flipped", "broken", "oversized"]
    if hostile:
        kinds += ["garbage", "garbage", "truncated"]
    kind = rng.choice(kinds)
    msg, _valid = _message(rng, module, sd, params, kind)
    base = rng.choice([0, 0, 1, 3, 5, 8])
    ops = [{"op": "reset"}, {"op": "alloc", "arena": "tx", "hex": msg.hex(), "base": base, "content": kind}]
    ob = {"op": "observe", "struct": st, "params": params, "arena": "tx", "off": 0, "len": len(msg)}
    al = bool(cfg.get("aligned") and base % cfg["aligned"] == 0 and rng.random() < 0.7)
    if al:
        ob["aligned"] = True
    ops.append(dict(ob))
    paths = write_paths(module, st)
    if not paths:
        return ops
    # the values are chosen against the state the model predicts at that point
    script = scen.Script(module)
    for j, op in enumerate(ops):
        script.add_op(op, (0, j))
    for _ in range(rng.randint(3, 10)):
        path = rng.choice(paths)
        env = script.env(st, params, "tx", 0, len(msg))
        vals = scen.write_values(rng, module, env, path)
        v = rng.choice(vals)
        op = {"op": "write", "struct": st, "params": params, "arena": "tx", "off": 0, "len": len(msg), "path": path, "value": v}
        if al:
            op["aligned"] = True
        ops.append(op)
        script.add_op(op, (0, len(ops)))
        if rng.random() < 0.4:
            ops.append(dict(ob))
            script.add_op(ops[-1], (0, len(ops)))
    ops.append(dict(ob))
    return ops


def scenario_copy(rng, module, cfg, hostile=False):
    st = rng.choice(module.mains)
    sd = module.struct(st)
    params = scen.draw_params(rng, sd, module)
    kinds = ["valid", "valid", "valid", "broken", "truncated", "flipped"] + (["garbage"] * 2 if hostile else [])
    akind = rng.choice(kinds)
    a, a_valid = _message(rng, module, sd, params, akind)
    ops = [{"op": "reset"}, {"op": "note", "content": akind}]
    mode = rng.choice(["separate", "separate", "overlap", "equal_variants"])
    if mode == "overlap" and len(a) > 0:
        # receiver-side compaction: source and destination share one arena, shifted by d
        size = len(a)
        d = rng.randint(-size, size)
        pad = rng.randint(0, 4)
        lead = max(0, -d) + pad
        arena = bytearray(rng.getrandbits(8) for _ in range(lead + size + max(0, d) + pad + rng.randint(0, 3)))
        soff = lead
        doff = lead + d
        arena[soff: soff + size] = a
        ops.append({"op": "alloc", "arena": "rx", "hex": bytes(arena).hex(), "base": rng.choice([0, 1, 2])})
        dlen = rng.choice([size, size, size + 1, max(0, size - 1), len(arena) - doff])
        dlen = max(0, min(dlen, len(arena) - doff))
        ops.append({"op": "copy", "struct": st, "params": params, "arena": "rx", "off": doff, "len": dlen,
                    "src": "rx", "soff": soff, "slen": size})
        ops.append({"op": "observe", "struct": st, "params": params, "arena": "rx", "off": doff, "len": dlen})
        return ops
    ops.append({"op": "alloc", "arena": "src", "hex": a.hex(), "base": rng.choice([0, 1])})
    if mode == "equal_variants":
        b = bytearray(a)
        variant = rng.choice(["same", "flip_any", "flip_any", "other_message", "extend"])
        if variant == "flip_any" and len(b):
            i = rng.randrange(len(b) * 8)
            b[i // 8] ^= 1 << (i % 8)
        elif variant == "other_message":
            b = bytearray(_message(rng, module, sd, params, "valid")[0])
        elif variant == "extend":
            b += bytes(rng.getrandbits(8) for _ in range(rng.randint(1, 5)))
        ops.append({"op": "alloc", "arena": "dst", "hex": bytes(b).hex(), "base": rng.choice([0, 3])})
        ops.append({"op": "equals", "struct": st, "params": params, "arena": "dst", "off": 0, "len": len(b),
                    "src": "src", "soff": 0, "slen": len(a)})
        return ops
    # copy into a store slot of some relative size
    dl = rng.choice([len(a), len(a), len(a) + 1, len(a) + 7, max(0, len(a) - 1), 0, rng.randint(0, len(a) + 8)])
    filler = bytes(rng.getrandbits(8) for _ in range(dl + rng.randint(0, 4)))
    ops.append({"op": "alloc", "arena": "dst", "hex": filler.hex(), "base": rng.choice([0, 2])})
    ops.append({"op": "equals", "struct": st, "params": params, "arena": "dst", "off": 0, "len": dl, "src": "src", "soff": 0, "slen": len(a)})
    ops.append({"op": "copy", "struct": st, "params": params, "arena": "dst", "off": 0, "len": dl, "src": "src", "soff": 0, "slen": len(a)})
    ops.append({"op": "observe", "struct": st, "params": params, "arena": "dst", "off": 0, "len": dl})
    ops.append({"op": "equals", "struct": st, "params": params, "arena": "dst", "off": 0, "len": dl, "src": "src", "soff": 0, "slen": len(a)})
    return ops


TEXT_OPTIONS = [(ml, cm, grp, base) for ml in (0, 1) for cm in (0, 1) for grp in (0, 4, 8) for base in (2, 10, 16)
                if not (grp == 8 and base == 10) and not (grp == 4 and base == 10 and False)]


def _has_array(module, sd, seen=None):
    seen = seen or set()
    if sd.name in seen:
        return False
    seen.add(sd.name)
    for f in sd.fields:
        t = f.type
        if isinstance(t, D.ArrayT):
            return True
        if isinstance(t, D.StructRef) and _has_array(module, module.struct(t.name), seen):
            return True
    return False


def scenario_text(rng, module, cfg, hostile=False):
    st = rng.choice(module.mains)
    sd = module.struct(st)
    params = scen.draw_params(rng, sd, module)
    kind = rng.choice(["valid", "valid", "valid", "valid", "broken"] + (["garbage", "truncated", "flipped"] if hostile else []))
    msg, valid = _message(rng, module, sd, params, kind)
    ops = [{"op": "reset"}, {"op": "alloc", "arena": "a", "hex": msg.hex(), "base": rng.choice([0, 1]), "content": kind}]
    ob = {"struct": st, "params": params}
    ops.append(dict(ob, op="observe", arena="a", off=0, len=len(msg)))
    mode = rng.choice(["roundtrip", "roundtrip", "roundtrip", "literal", "literal_corrupt", "channel_fault"])
    env = scen.make_env(module, sd, params, bytearray(msg), 0, len(msg))
    is_ok = env.ok()
    if mode in ("literal", "literal_corrupt") and is_ok:
        corrupt = None
        expect = "1"
        desc = None
        if mode == "literal_corrupt":
            cands = []
            for name, f, container in env.fields():
                if not f.is_virtual and isinstance(f.type, D.Scalar) and f.type.kind in ("UInt", "Int", "Bcd", "Enum") and env.has(name) is True:
                    cands.append((name, f))
            if cands:
                name, f = rng.choice(cands)
                lo, hi = M.scalar_range(f.type, module)
                bad = rng.choice([str(hi + 1), str(lo - 1), str(1 << 64), str(-(1 << 63) - 1), "0x", "--1", "0b", "12x", "0x1g", "-",
                                  hex(hi + 1), "99999999999999999999999", bin(hi + 1)])
                corrupt = {"path": name, "depth": 0, "text": bad}
                expect = "0"
                desc = {"field": name, "text": bad, "kind": "out_of_range" if bad.lstrip("-").isdigit() or bad.startswith("0x") and len(bad) > 2 else "malformed"}
        text, sets = model2.literal_text(rng, env, corrupt=corrupt)
        ops.append({"op": "alloc", "arena": "b", "hex": bytes(len(msg)).hex(), "base": rng.choice([0, 2])})
        ops.append(dict(ob, op="restore_literal", arena="b", off=0, len=len(msg), text=text, sets=[[list(p), v] for p, v in sets],
                        expect=expect, corrupted=corrupt is not None, corruption=desc))
        if expect == "1":
            ops.append({"op": "bytes", "arena": "b"})
        return ops
    ml, cm, grp, base = rng.choice(TEXT_OPTIONS)
    ops.append(dict(ob, op="dump", arena="a", off=0, len=len(msg), ml=ml, cm=cm, grp=grp, base=base, slot="s"))
    ops.append({"op": "alloc", "arena": "b", "hex": bytes(len(msg)).hex(), "base": rng.choice([0, 2])})
    faulted = False
    if mode == "channel_fault" or not is_ok:
        ops.append({"op": "channel", "slot": "s", "kind": rng.choice(["trunc", "trunc", "drop", "dup", "nine"]), "arg": rng.randint(0, 120)})
        faulted = True
    # comments run to the end of the line, so single-line output with comments is not among the
    # option sets documented as re-readable
    rereadable = not (cm and not ml)
    expect = "1" if (is_ok and not faulted and rereadable) else None
    ops.append(dict(ob, op="restore_slot", arena="b", off=0, len=len(msg), slot="s", expect=expect, ml=ml, faulted=faulted,
                    has_array=_has_array(module, sd)))
    if expect == "1":
        ops.append(dict(ob, op="observe_restored", arena="b", off=0, len=len(msg), like_arena="a", like_off=0, like_len=len(msg)))
        if not model2.has_skip(module, sd):
            ops.append(dict(ob, op="equals_restored", arena="b", off=0, len=len(msg), src="a", soff=0, slen=len(msg), expect="11"))
    return ops


def scenario_hostile(rng, module, cfg):
    """Every checked call, in random order, on buffers of random length and content."""
    r = rng.random()
    if r < 0.3:
        return scen.scenario_stream(rng, module, dict(cfg, stream_weights=[1, 4, 3, 3, 1, 2]))
    if r < 0.55:
        return scenario_writes(rng, module, cfg, hostile=True)
    if r < 0.75:
        return scenario_copy(rng, module, cfg, hostile=True)
    return scenario_text(rng, module, cfg, hostile=True)


def scenario_for(prop, rng, module, cfg):
    if prop == "C03":
        return scenario_writes(rng, module, cfg)
    if prop == "C20":
        return scenario_copy(rng, module, cfg)
    if prop == "C06":
        return scenario_text(rng, module, cfg)
    return scenario_hostile(rng, module, cfg)


# ---------------------------------------------------------------------------
# comparisons for copy / equals / text expectations


def compare_other(exp, got, fail, line, counters, prop):
    """Returns True when the rest of the scenario should not be compared."""
    kind = exp["kind"]
    marker = {"copy": "copy", "equals": "equals", "restore": "restore"}.get(kind)
    if marker is not None and marker not in got:
        # the driver was built without this method (it does not compile: reported separately)
        counters["op_not_available_in_driver"] = counters.get("op_not_available_in_driver", 0) + 1
        return True
    counters["ops_checked"] = counters.get("ops_checked", 0) + 1
    if kind == "copy":
        facts = exp["facts"]
        counters["probe.copy_" + ("ok" if exp["result"] == "1" else "refused")] = counters.get("probe.copy_" + ("ok" if exp["result"] == "1" else "refused"), 0) + 1
        if facts.get("overlap"):
            counters["probe.copy_overlap_" + facts["direction"]] = counters.get("probe.copy_overlap_" + facts["direction"], 0) + 1
        if not facts["src_ok"]:
            counters["probe.copy_rejected_src_not_ok"] = counters.get("probe.copy_rejected_src_not_ok", 0) + 1
        elif not facts["fits"]:
            counters["probe.copy_rejected_dest_small"] = counters.get("probe.copy_rejected_dest_small", 0) + 1
        if got.get("copy") != exp["result"]:
            fail("copy_result_mismatch", [exp["result"], "src_ok" if facts["src_ok"] else "src_not_ok", "fits" if facts["fits"] else "too_small"],
                 {"expected": exp["result"], "observed": got.get("copy")}, line, facts, pr="C20")
            return True
        if got.get("dst") != exp["dst"] or (not facts["same_arena"] and got.get("src") != exp["src"]):
            fail("copy_effect_mismatch", ["succeeded" if exp["result"] == "1" else "refused", "overlap_" + facts["direction"] if facts.get("overlap") else "disjoint"],
                 {"expected_dst": exp["dst"], "observed_dst": got.get("dst"), "expected_src": exp["src"], "observed_src": got.get("src")}, line, facts, pr="C20")
            return True
        return False
    if kind == "equals":
        if exp.get("requires_line") is not None:
            pass
        if exp["value"] is None:
            counters["unspecified"] = counters.get("unspecified", 0) + 1
            return False
        k = "probe.equals_" + exp["value"].replace("/", "")
        counters[k] = counters.get(k, 0) + 1
        if got.get("equals") != exp["value"]:
            fail("equals_mismatch", [exp["value"], "restored" if exp.get("restored") else "direct"],
                 {"expected": exp["value"], "observed": got.get("equals")}, line, {"restored": bool(exp.get("restored"))},
                 pr="C06" if exp.get("restored") else "C20")
            return True
        return False
    if kind == "restore":
        facts = dict(exp.get("facts", {}))
        if exp.get("expected") is None:
            counters["unspecified"] = counters.get("unspecified", 0) + 1
            if facts.get("faulted"):
                counters["fault.text_channel"] = counters.get("fault.text_channel", 0) + 1
            return False
        if exp["expected"] == "0":
            counters["probe.text_reject_expected"] = counters.get("probe.text_reject_expected", 0) + 1
        if got.get("restore") != exp["expected"]:
            fail("restore_result_mismatch", [exp["expected"], "literal" if facts.get("literal") else "writer_output",
                                             "multiline" if facts.get("multiline") else "single_line",
                                             (facts.get("corruption") or {}).get("kind")],
                 {"expected": exp["expected"], "observed": got.get("restore"), "corruption": facts.get("corruption")}, line, facts, pr="C06")
            return True
        if exp.get("bytes") is not None and got.get("bytes") != exp["bytes"]:
            fail("restore_effect_mismatch", ["literal"], {"expected": exp["bytes"], "observed": got.get("bytes")}, line, facts, pr="C06")
            return True
        return False
    if kind in ("dump", "channel", "null"):
        return False
    return False
