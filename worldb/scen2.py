"""Scenarios and comparisons for writes (C03), hostile buffers (C04), text (C06), copy/equals (C20)."""

from worldb import scen


def scenario_for(prop, rng, module, cfg):
    return scen.scenario_stream(rng, module, cfg)


def compare_other(exp, got, fail, line, counters, prop):
    return False
