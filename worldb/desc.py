"""Python-side description of a protocol module (World B).

The description is built by the generator (gen.py), rendered to .emb text for the
real compiler, and interpreted by the reference model (model.py).  The model
never looks at the compiler's IR: the meaning of a module is known by
construction.
"""


class Expr:
    pass


class Const(Expr):
    def __init__(self, v):
        self.v = v  # int or bool


class EnumConst(Expr):
    def __init__(self, enum, name, value):
        self.enum, self.name, self.value = enum, name, value


class Ref(Expr):
    def __init__(self, *path):
        self.path = tuple(path)


class Param(Expr):
    def __init__(self, name):
        self.name = name


class Bin(Expr):
    def __init__(self, op, a, b):
        self.op, self.a, self.b = op, a, b


class Cond(Expr):
    def __init__(self, c, a, b):
        self.c, self.a, self.b = c, a, b


class Max(Expr):
    def __init__(self, args):
        self.args = list(args)


class Present(Expr):
    def __init__(self, *path):
        self.path = tuple(path)


class Next(Expr):
    pass


class This(Expr):
    pass


_QUAL = {}  # type name -> qualified name in .emb text, set by render_module for the module being rendered


def qual(name):
    return _QUAL.get(name, name)


def set_qualification(m):
    _QUAL.clear()
    for t in list(m.enums) + list(m.structs):
        if getattr(t, "parent", None):
            _QUAL[t.name] = qual_of(m, t)


def qual_of(m, t):
    parts = [t.name]
    cur = t
    while getattr(cur, "parent", None):
        parts.insert(0, cur.parent)
        cur = m.struct(cur.parent)
    return ".".join(parts)


def render(e):
    if isinstance(e, Const):
        if e.v is True:
            return "true"
        if e.v is False:
            return "false"
        return str(e.v)
    if isinstance(e, EnumConst):
        return f"{qual(e.enum)}.{e.name}"
    if isinstance(e, Ref):
        return ".".join(e.path)
    if isinstance(e, Param):
        return e.name
    if isinstance(e, Bin):
        return f"({render(e.a)} {e.op} {render(e.b)})"
    if isinstance(e, Cond):
        return f"({render(e.c)} ? {render(e.a)} : {render(e.b)})"
    if isinstance(e, Max):
        return "$max(" + ", ".join(render(a) for a in e.args) + ")"
    if isinstance(e, Present):
        return "$present(" + ".".join(e.path) + ")"
    if isinstance(e, Next):
        return "$next"
    if isinstance(e, This):
        return "this"
    raise TypeError(e)


def render_top(e):
    s = render(e)
    if s.startswith("(") and s.endswith(")") and isinstance(e, (Bin, Cond)):
        return s[1:-1]
    return s


def walk(e):
    yield e
    if isinstance(e, Bin):
        yield from walk(e.a)
        yield from walk(e.b)
    elif isinstance(e, Cond):
        yield from walk(e.c)
        yield from walk(e.a)
        yield from walk(e.b)
    elif isinstance(e, Max):
        for a in e.args:
            yield from walk(a)


# ---------------------------------------------------------------------------
# types


class Scalar:
    """kind in UInt, Int, Bcd, Flag, Float, Enum; bits = width of the field."""

    def __init__(self, kind, bits, enum=None):
        self.kind, self.bits, self.enum = kind, bits, enum


class StructRef:
    def __init__(self, name, args=()):
        self.name, self.args = name, list(args)


class ArrayT:
    """elem: Scalar or StructRef; elem_bits: size of one element in bits;
    count: Expr, or None for an automatically sized array ([])."""

    def __init__(self, elem, elem_bits, count):
        self.elem, self.elem_bits, self.count = elem, elem_bits, count


class AnonBits:
    def __init__(self, members):
        self.members = members  # list of Field (bit-addressed), promoted into the parent


class Field:
    def __init__(self, name, start=None, size=None, type=None, cond=None, byte_order=None,
                 requires=None, skip=False, expr=None, emit=False):
        self.name = name
        self.start, self.size, self.type = start, size, type
        self.cond = cond
        self.byte_order = byte_order  # "LittleEndian" | "BigEndian" | None (default or Null)
        self.requires = requires
        self.skip = skip
        self.emit = emit  # explicit [text_output: "Emit"] (same meaning as no attribute)
        self.expr = expr  # virtual field when not None

    @property
    def is_virtual(self):
        return self.expr is not None


class StructDef:
    def __init__(self, name, kind="struct", params=(), fields=(), requires=None, default_byte_order=None):
        self.name, self.kind = name, kind  # kind: struct | bits
        self.default_byte_order = default_byte_order  # [$default byte_order: ...] inside the struct
        self.parent = None  # name of the struct this type is defined inside (inline type definition)
        self.params = list(params)  # [(name, 'UInt'|'Int'|enum name, bits)]
        self.fields = list(fields)
        self.requires = requires

    @property
    def unit(self):
        return 8 if self.kind == "struct" else 1


class EnumDef:
    def __init__(self, name, values, max_bits=64, signed=False):
        self.name, self.values, self.max_bits, self.signed = name, list(values), max_bits, signed
        self.parent = None  # name of the struct this enum is defined inside


class ModuleDef:
    def __init__(self, namespace, default_byte_order, enums, structs):
        self.namespace = namespace
        self.default_byte_order = default_byte_order  # None | "LittleEndian" | "BigEndian"
        self.enums = list(enums)
        self.structs = list(structs)

    def struct(self, name):
        for s in self.structs:
            if s.name == name:
                return s
        raise KeyError(name)

    def enum(self, name):
        for e in self.enums:
            if e.name == name:
                return e
        raise KeyError(name)


# ---------------------------------------------------------------------------
# rendering to .emb


def _type_text(t):
    if isinstance(t, Scalar):
        name = qual(t.enum) if t.kind == "Enum" else t.kind
        return name
    if isinstance(t, StructRef):
        if t.args:
            return qual(t.name) + "(" + ", ".join(render_top(a) for a in t.args) + ")"
        return qual(t.name)
    if isinstance(t, ArrayT):
        base = _type_text(t.elem)
        if isinstance(t.elem, Scalar):
            base += f":{t.elem_bits}"
        return base + ("[]" if t.count is None else f"[{render_top(t.count)}]")
    raise TypeError(t)


def _render_field(f, indent, out):
    pad = " " * indent
    if f.cond is not None:
        out.append(f"{pad}if {render_top(f.cond)}:")
        pad += "  "
    if f.is_virtual:
        out.append(f"{pad}let {f.name} = {render_top(f.expr)}")
        sub = pad + "  "
    elif isinstance(f.type, AnonBits):
        out.append(f"{pad}{render_top(f.start)} [+{render_top(f.size)}]  bits:")
        sub = pad + "  "
        if f.byte_order:
            out.append(f'{sub}[byte_order: "{f.byte_order}"]')
        for m in f.type.members:
            _render_field(m, len(sub), out)
        return
    else:
        out.append(f"{pad}{render_top(f.start)} [+{render_top(f.size)}]  {_type_text(f.type)}  {f.name}")
        sub = pad + "  "
    if f.byte_order:
        out.append(f'{sub}[byte_order: "{f.byte_order}"]')
    if f.requires is not None:
        out.append(f"{sub}[requires: {render_top(f.requires)}]")
    if f.skip:
        out.append(f'{sub}[text_output: "Skip"]')
    elif getattr(f, "emit", False):
        out.append(f'{sub}[text_output: "Emit"]')


def _render_enum(e, indent, out):
    pad = " " * indent
    out.append(f"{pad}enum {e.name}:")
    if e.max_bits != 64:
        out.append(f"{pad}  [maximum_bits: {e.max_bits}]")
    if e.signed:
        out.append(f"{pad}  [is_signed: true]")
    for n, v in e.values:
        out.append(f"{pad}  {n} = {v}")


def _render_struct(m, s, indent, out):
    pad = " " * indent
    params = ""
    if s.params:
        ps = []
        for n, k, b in s.params:
            ps.append(f"{n}: {k}:{b}" if k in ("UInt", "Int") else f"{n}: {qual(k)}")
        params = "(" + ", ".join(ps) + ")"
    out.append(f"{pad}{s.kind} {s.name}{params}:")
    if getattr(s, "default_byte_order", None):
        out.append(f'{pad}  [$default byte_order: "{s.default_byte_order}"]')
    if s.requires is not None:
        out.append(f"{pad}  [requires: {render_top(s.requires)}]")
    # inline type definitions come first
    for e in m.enums:
        if getattr(e, "parent", None) == s.name:
            _render_enum(e, indent + 2, out)
    for c in m.structs:
        if getattr(c, "parent", None) == s.name:
            _render_struct(m, c, indent + 2, out)
    for f in s.fields:
        _render_field(f, indent + 2, out)


def in_lib(m, t):
    """Is type t defined in the imported file (lib.emb) of a module that is split over two files?"""
    return bool(getattr(m, "split", False)) and t.name not in getattr(m, "mains", []) and not getattr(t, "parent", None)


def render_files(m):
    """{file name: text}: one file, or -- for a split module -- m.emb importing lib.emb, which holds
    every helper type (enums, bits types, leaf structures); m.emb refers to them as lib.Name."""
    if not getattr(m, "split", False):
        return {"m.emb": render_module(m)}
    lib_types = [t for t in list(m.enums) + list(m.structs) if in_lib(m, t)]
    lib_names = {t.name for t in lib_types}
    # lib.emb: unqualified names
    set_qualification(m)
    out = []
    if m.default_byte_order:
        out.append(f'[$default byte_order: "{m.default_byte_order}"]')
    out.append(f'[(cpp) namespace: "{m.namespace}lib"]')
    for e in m.enums:
        if e.name in lib_names:
            _render_enum(e, 0, out)
    for s in m.structs:
        if s.name in lib_names:
            _render_struct(m, s, 0, out)
    lib_text = "\n".join(out) + "\n"
    # m.emb: helper types are lib.Name
    set_qualification(m)
    for n in lib_names:
        _QUAL[n] = "lib." + n
    out = ['import "lib.emb" as lib']
    if m.default_byte_order:
        out.append(f'[$default byte_order: "{m.default_byte_order}"]')
    out.append(f'[(cpp) namespace: "{m.namespace}"]')
    for e in m.enums:
        if e.name not in lib_names and not getattr(e, "parent", None):
            _render_enum(e, 0, out)
    for s in m.structs:
        if s.name not in lib_names and not getattr(s, "parent", None):
            _render_struct(m, s, 0, out)
    set_qualification(m)
    return {"m.emb": "\n".join(out) + "\n", "lib.emb": lib_text}


def render_module(m):
    set_qualification(m)
    out = []
    if m.default_byte_order:
        out.append(f'[$default byte_order: "{m.default_byte_order}"]')
    out.append(f'[(cpp) namespace: "{m.namespace}"]')
    for e in m.enums:
        if not getattr(e, "parent", None):
            _render_enum(e, 0, out)
    for s in m.structs:
        if not getattr(s, "parent", None):
            _render_struct(m, s, 0, out)
    return "\n".join(out) + "\n"


def cpp_type_name(m, t):
    """Fully qualified C++ name of an enum or struct type (sim::Outer::Inner, simlib::Kind)."""
    ns = m.namespace + ("lib" if in_lib(m, t) else "")
    return ns + "::" + qual_of(m, t).replace(".", "::")
