#!/usr/bin/env python3
"""Applies a seeded change (seeded/<id>/patch.diff) to /repo, runs the named checks, undoes it.

usage: tools/run_seeded.py seeded/<id> [CHECK ...] [--tier quick] [--runs N]
Prints one line per check: DETECTED / MISSED, and leaves /repo clean.
"""
import json
import os
import subprocess
import sys

VERIF = os.path.dirname(os.path.dirname(os.path.abspath(__file__)))


def main():
    args = sys.argv[1:]
    d = args[0]
    checks = [a for a in args[1:] if a.startswith("C")]
    extra = [a for a in args[1:] if not a.startswith("C")]
    meta = {}
    if os.path.exists(os.path.join(d, "meta.json")):
        meta = json.load(open(os.path.join(d, "meta.json")))
    checks = checks or meta.get("checks") or [meta.get("property")]
    patch = os.path.abspath(os.path.join(d, "patch.diff"))
    st = subprocess.run(["git", "-C", "/repo", "status", "--porcelain"], capture_output=True, text=True).stdout.strip()
    if st:
        print("refusing: /repo is not clean:\n" + st)
        return 2
    r = subprocess.run(["git", "-C", "/repo", "apply", patch], capture_output=True, text=True)
    if r.returncode != 0:
        print("patch does not apply:", r.stderr)
        return 2
    results = {}
    try:
        for c in checks:
            rdir = f"/dev/shm/emboss-verif-seeded-replays/{os.path.basename(os.path.normpath(d))}"
            os.makedirs(rdir, exist_ok=True)
            p = subprocess.run(["/venv/bin/python", os.path.join(VERIF, "bin", "check.py"), c, "--no-evidence"] + extra,
                               capture_output=True, text=True, cwd=VERIF, env=dict(os.environ, VERIF_REPLAY_DIR=rdir))
            viol = [l for l in p.stdout.splitlines() if l.startswith("VIOLATION") or l.lstrip().startswith("violation class")]
            results[c] = {"rc": p.returncode, "violations": viol, "tail": p.stdout.splitlines()[-1:] + p.stderr.splitlines()[-3:]}
            print(f"{os.path.basename(d)} {c}: {'DETECTED' if p.returncode == 1 else 'MISSED' if p.returncode == 0 else 'HARNESS rc=%d' % p.returncode}")
            for v in viol[:8]:
                print("    ", v)
            if p.returncode not in (0, 1):
                print("    ", results[c]["tail"])
    finally:
        subprocess.run(["git", "-C", "/repo", "checkout", "--", "."], check=True)
    return 0


if __name__ == "__main__":
    sys.exit(main())
