#!/usr/bin/env python3
"""Independently confirms a seeded change delivered by a sub-agent and files it under seeded/<id>/.

usage: tools/validate_seeded.py <worktree> <id> <property> [--skip-tests]

In the worktree (never in /repo): the demonstration must pass on the clean tree, the patch must
apply, the demonstration must fail with it, and the pinned test suite must give the baseline
result with it.  On success the patch, the demonstration and a meta.json are copied to
/verif/seeded/<id>/ and the worktree is left clean.
"""
import json
import os
import re
import shutil
import subprocess
import sys

VERIF = os.path.dirname(os.path.dirname(os.path.abspath(__file__)))
BASELINE = ("1 failed", "1069 passed")


def sh(cmd, cwd, timeout=3600):
    r = subprocess.run(cmd, shell=True, cwd=cwd, capture_output=True, text=True, timeout=timeout)
    return r.returncode, (r.stdout + r.stderr)


def main():
    wt, sid, prop = sys.argv[1], sys.argv[2], sys.argv[3]
    skip_tests = "--skip-tests" in sys.argv
    sd = os.path.join(wt, "_seeded")
    demo = "demo.sh" if os.path.exists(os.path.join(sd, "demo.sh")) else "demo.py"
    run_demo = (f"bash _seeded/{demo} {wt}" if demo.endswith(".sh") else f"/venv/bin/python _seeded/{demo} {wt}")
    rc, out = sh("git status --porcelain", wt)
    dirty = [l for l in out.splitlines() if not l.endswith("_seeded/")]
    if dirty:
        print("worktree not clean:", dirty)
        return 2
    report = {}
    rc, out = sh(run_demo, wt)
    report["demo_clean_rc"] = rc
    report["demo_clean_tail"] = out[-400:]
    if rc != 0:
        print("FAIL: demo does not pass on the clean tree\n", out[-1500:])
        return 1
    rc, out = sh("git apply _seeded/patch.diff", wt)
    if rc != 0:
        print("FAIL: patch does not apply\n", out)
        return 1
    try:
        rc, out = sh(run_demo, wt)
        report["demo_patched_rc"] = rc
        report["demo_patched_tail"] = out[-800:]
        if rc == 0:
            print("FAIL: demo passes with the change applied")
            return 1
        rc, files = sh("git diff --stat", wt)
        report["diffstat"] = files.strip().splitlines()
        if not skip_tests:
            rc, out = sh("/venv/bin/python -m pytest -q -p no:cacheprovider --timeout=900 --continue-on-collection-errors -n 6 2>&1 | tail -3", wt)
            tail = out.strip().splitlines()[-1] if out.strip() else ""
            report["pytest_patched_tail"] = tail
            if not all(b in tail for b in BASELINE):
                print("FAIL: test suite result differs from baseline:", tail)
                return 1
    finally:
        sh("git checkout -- . && rm -rf _seeded/build", wt)
    dst = os.path.join(VERIF, "seeded", sid)
    os.makedirs(dst, exist_ok=True)
    for name in os.listdir(sd):
        if name in ("build", "__pycache__"):
            continue
        src = os.path.join(sd, name)
        if os.path.isdir(src):
            shutil.copytree(src, os.path.join(dst, name), dirs_exist_ok=True)
        else:
            shutil.copy2(src, os.path.join(dst, name))
    notes = ""
    if os.path.exists(os.path.join(sd, "notes.md")):
        notes = open(os.path.join(sd, "notes.md")).read()
    meta = {"id": sid, "property": prop, "demo": demo, "confirmed": report,
            "needs_to_manifest": "see notes.md", "checks": [prop]}
    meta_path = os.path.join(dst, "meta.json")
    if os.path.exists(meta_path):
        old = json.load(open(meta_path))
        old.update({k: v for k, v in meta.items() if k in ("confirmed",)})
        meta = old
    json.dump(meta, open(meta_path, "w"), indent=1)
    print(f"OK {sid}: demo clean rc=0, patched rc={report['demo_patched_rc']}, pytest: {report.get('pytest_patched_tail', 'skipped')}")
    return 0


if __name__ == "__main__":
    sys.exit(main())
