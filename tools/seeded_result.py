#!/usr/bin/env python3
"""Records a later result for a seeded change and regenerates seeded/README.md.

usage: tools/seeded_result.py <id> <check> <DETECTED|MISSED> "<note>"     (or no arguments: only regenerate)
"""
import glob
import json
import os
import sys

VERIF = os.path.dirname(os.path.dirname(os.path.abspath(__file__)))


def main():
    if len(sys.argv) >= 4:
        sid, check, result = sys.argv[1:4]
        note = sys.argv[4] if len(sys.argv) > 4 else ""
        p = os.path.join(VERIF, "seeded", sid, "meta.json")
        m = json.load(open(p))
        m.setdefault("results_quick_tier", []).append({"check": check, "result": result, "at": note})
        json.dump(m, open(p, "w"), indent=1)
    rows = []
    for p in sorted(glob.glob(os.path.join(VERIF, "seeded", "*", "meta.json"))):
        m = json.load(open(p))
        first = {r["check"]: r["result"] for r in m.get("results_quick_tier", []) if "first run" in r.get("at", "")}
        last = {}
        for r in m.get("results_quick_tier", []):
            last[r["check"]] = (r["result"], r.get("at", ""))
        rows.append((m["id"], m["property"], m.get("needs_to_manifest", ""), first, last))
    out = ["# Seeded changes", "",
           "Each directory holds a change to google/emboss that breaks one property while the pinned test suite still passes",
           "(`patch.diff`), the demonstration written by the sub-agent that produced it (fails with the change, passes without),",
           "the agent's `notes.md`, and `meta.json` (what it needs in order to manifest, what was run, results).  The changes were",
           "written by sub-agents that saw only the property text and a scratch worktree; each was confirmed independently with",
           "`tools/validate_seeded.py` and run against the quick tier of the checks with `tools/run_seeded.py`.", "",
           "| id | property | needs, in order to manifest | first result | current result |", "|---|---|---|---|---|"]
    for sid, prop, needs, first, last in rows:
        f = ", ".join(f"{c}: {r}" for c, r in sorted(first.items())) or "-"
        l = ", ".join(f"{c}: {r[0]}" + (f" ({r[1]})" if r[1] and "first run" not in r[1] else "") for c, r in sorted(last.items())) or "-"
        out.append(f"| `{sid}` | {prop} | {needs} | {f} | {l} |")
    open(os.path.join(VERIF, "seeded", "README.md"), "w").write("\n".join(out) + "\n")
    print(f"{len(rows)} seeded changes listed")


if __name__ == "__main__":
    main()
