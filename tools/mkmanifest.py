import json
NA = {
 "C02": "Read() of a scalar is a pure function of (type, width, offset, byte order, container bytes); no schedule, clock, history or fault enters. World B's oracle compares every field value, so a decode regression is reported under C01.",
 "C05": "Inferred bounds are a pure function of the expression tree; soundness is a statement over operand values, decided by evaluation or proof, not by a scheduler.",
 "C07": "'The header compiles' is a pure function of the module text and -std; no history, configuration-independence or fault seam is involved.",
 "C08": "The LR(1) construction is a pure function of the grammar (its caches live and die with one Grammar object).",
 "C09": "Equality of two finite automata is a static comparison, not an execution under faults or schedules.",
 "C10": "tokenize(text) is a pure function of the text.",
 "C11": "format(parse(text), indent) is a pure function; crash-atomicity of the in-place rewrite is not what C11 states, so a crash oracle would demand more than the property.",
 "C12": "Name binding is a pure function of the module texts.",
 "C13": "Type acceptance/rejection is a pure function of the module texts.",
 "C14": "Layout/attribute acceptance is a pure function of the module texts.",
 "C15": "Cycle detection and field ordering are pure functions of the reference graph; termination of one call has no fault or schedule in it.",
 "C19": "Enum tables are a pure function of the enum definition.",
}
A_NOTE = "Trusted: the scheduler, the worker protocol and the canonical oracle (same job on a PYTHONHASHSEED=0 process); process creation in this sandbox is slow (~150 forks/s machine-wide), so only a drawn fraction of oracle jobs gets a brand-new process. Sampling, not enumeration."
checks = []
def chk(pid, text, ref, technique, note):
    checks.append({
      "property_id": pid,
      "quick_cmd": f"/venv/bin/python bin/check.py {pid} --tier quick",
      "thorough_cmd": f"/venv/bin/python bin/check.py {pid} --tier thorough",
      "evidence_file": f"evidence/{pid}.json",
      "replay_cmd_template": f"/venv/bin/python bin/check.py {pid} --replay {{path}}",
      "engine": "world_a_buildfarm" if pid in ("C16","C17","C18") else "world_b_wire",
      "level_claimed": {"category": "exploration", "text": text, "design_ref": ref},
      "level_note": note,
      "technique": technique,
    })
chk("C16", "Seeded search over build-farm histories: every entry of a tree (error catalogue, corpus, parser error examples, token soup, typed semantic soup with a few drawn flaws, valid import graphs, World B modules, random derivations of the real grammar) is built once pristine, then the tree drifts by accumulated token/line edits, files of the import closure are deleted, torn (prefix saves), replaced by directories/dangling links/symlink loops, fail to read, or change between two reads of one compilation, in warm compiler workers and in a sample of cold embossc processes; every build must end (CPU-time cap) in output or located, renderable errors whose positions lie inside the files named, for the library entry points and for the command-line programs. Evidence, not proof.", "DESIGN.md 3.5, 5 (C16)", "deterministic simulation of a build farm with disk-fault injection (seeded scheduler over real compiler processes)", A_NOTE)
chk("C17", "Seeded search over worker hash seeds, worker histories, crashes/restarts, repetition, import-directory permutations/duplicates, one-vs-two-process pipelines and a sample of cold embossc processes: every execution of a job must be byte-identical to the same job in a fresh PYTHONHASHSEED=0 process (anonymous identifiers up to numbering on warm workers). Evidence, not proof.", "DESIGN.md 3.3, 5 (C17)", "deterministic simulation of a build farm: same job replayed across seeded process histories and configurations, compared with a fresh-process oracle", A_NOTE)
chk("C18", "Durability reading: the JSON file is the only state crossing the process boundary. For every accepted build the IR is round-tripped in-process and the back end is run in a different worker (other hash seed/history, possibly just restarted) from the JSON alone; headers and re-serialisations must agree with the in-process pipeline and with embossc. Evidence, not proof.", "DESIGN.md 3.4, 5 (C18)", "deterministic simulation of a split build pipeline across seeded worker processes with crash/restart between the halves", A_NOTE)
B_NOTE = "Trusted: the reference model (worldb/model.py, model2.py), written from the documents and corrected against them where the documents are silent (DESIGN.md section 8); clang 14 sanitizers; x86-64 only. Sampling, not enumeration (the prefix-length axis of a message is enumerated in the thorough tier)."
chk("C01", "Seeded simulation of a receiver framing messages from a byte stream: generated protocol modules (swarm-varied features incl. inline types, scoped $default, parameters, dynamic nested structures, arrays in bits, modules split over an import) are compiled by the real compiler, and after every delivery (arbitrary chunking, truncation, bit flips, garbage, oversize, odd alignment) the full observation of the generated view is compared with an independent reference model; everything reported as known from a prefix must persist in longer prefixes; a valid message must end Ok and complete; IntrinsicSizeIn*/MinSizeIn*/MaxSizeIn* must agree with and bound every reported size; observations through MakeAligned<Name>View on truly aligned buffers must be the same. Evidence, not proof.", "DESIGN.md 4, 5, 11.2 (C01)", "deterministic simulation of a byte link with fault injection; reference model as oracle; history (prefix-monotonicity) check", B_NOTE)
chk("C03", "Seeded operation histories on a sender's shared buffer (valid, truncated, flipped, oversized): CouldWriteValue/TryToWrite of boundary values through physical fields (integers, Bcd, flags, enums, floats bit for bit), array elements, nested fields, aliases and +/- transforms (with and without their own [requires]) are compared with the model's verdict, the arena bytes after every write with the model's arena, and the follow-up observation with the model. Evidence, not proof.", "DESIGN.md 4, 5 (C03)", "deterministic simulation: seeded write histories on shared buffers with truncation/corruption faults; reference model as oracle", B_NOTE)
chk("C04", "Fault-driven: every scenario kind (streams, writes, copies, compares, text dump/restore, null views) on hostile buffers (random length and content, truncated, flipped, misaligned) with every buffer an exact ASan-poisoned extent; oracle = no AddressSanitizer/UBSan report and no runtime CHECK abort in the driver process. Evidence, not proof.", "DESIGN.md 4, 5 (C04)", "deterministic simulation with fault injection; sanitizer-instrumented real code as oracle", B_NOTE)
chk("C06", "Snapshot/restore over a faultable text channel: WriteToString in every re-readable option set -> channel (fault-free, or EOF/dropped/duplicated/changed character) -> UpdateFromText into a zeroed buffer; fault-free restores must succeed and every emitted field must read back equal (and Equals when nothing is skipped); independently generated literal texts in the documented format must restore to the model's bytes; out-of-range or malformed numbers must be rejected. Evidence, not proof.", "DESIGN.md 4, 5 (C06)", "deterministic simulation of a text channel with fault injection; round-trip and reference-model oracles", B_NOTE)
chk("C20", "Receiver-side history over arenas: frames copied into slots of every relative size, overlapping copies in both directions (compaction), compares of frames that differ in covered bits, only in padding, in presence pattern or in length; TryToCopyFrom result, destination and source bytes after the copy (memmove semantics, untouched bytes) and Equals (both directions) are compared with the model. Evidence, not proof.", "DESIGN.md 4, 5 (C20)", "deterministic simulation: seeded copy/compare histories over shared and overlapping buffers; reference model as oracle", B_NOTE)
checks.sort(key=lambda c: c["property_id"])
m = {
 "version": 1,
 "setup_cmd": "/venv/bin/python bin/check.py setup",
 "hooks": {"guard": "EMBOSS_VERIF", "enable": "no source hooks are used: every seam is reachable from outside (file_reader callable, command-line flags, real files on a tmpfs, template parameters)", "baseline_off_cmd": "cd /repo && /venv/bin/python -m pytest -ra -q -p no:cacheprovider --timeout=900 --continue-on-collection-errors", "source_commits": [], "add_only": True},
 "engines": [
  {"name": "world_a_buildfarm", "path": "worlda/", "serves_properties": ["C16","C17","C18"], "kind_free_text": "seeded scheduler over a tmpfs source tree and long-lived compiler worker processes forked from per-PYTHONHASHSEED zygotes; disk faults, worker crashes, races between reads; fresh-process oracle"},
  {"name": "world_b_wire", "path": "worldb/", "serves_properties": ["C01","C03","C04","C06","C20"], "kind_free_text": "seeded protocol-module generator + independent reference model + generated C++ driver built with ASan/UBSan; scripts of deliveries, flips, writes, copies, compares, text dump/restore on exact poisoned buffers"},
 ],
 "checks": checks,
 "notes": "See DESIGN.md. Genuine defects found are in known_findings.json ('fixed' entries repaired by 'fix:' commits in /repo; 'known' entries are printed as KNOWN-FINDING lines).",
 "not_applicable": [{"property_id": k, "reason": v} for k, v in sorted(NA.items())],
}
json.dump(m, open('/verif/MANIFEST.json','w'), indent=1)
