import json,sys
for p in sys.argv[1:]:
    b=json.load(open(p))
    print('=====',p, b['failure']['class'], b['failure']['signature'], 'ops', len(b['scenario']) if 'scenario' in b else len(b['ops']), b.get('build'))
    if 'emb' in b: print(b['emb'])
    for op in b.get('scenario', b.get('ops', [])):
        o={k:v for k,v in op.items() if k!='stream'}
        if 'text' in o and isinstance(o['text'],str): o['text']=o['text'][:400]
        print('   ', o)
    d=dict(b['failure']['detail'])
    for k in ('stderr','traceback','error'):
        if k in d: d[k]=d[k][:1500]
    print(json.dumps(d,indent=1)[:3000]); print('facts', b['failure'].get('facts'))
