// Worked example of the driver shape described in DESIGN.md §4.4 / Appendix C.
// Hand-written for proto.emb; the real drivers are emitted by the generator.
#include "proto.emb.h"
#include <sanitizer/asan_interface.h>
#include <cinttypes>
#include <cstdio>
#include <cstdlib>
#include <cstring>
#include <map>
#include <sstream>
#include <string>
#include <vector>

// ---- generic helpers (identical for every module) --------------------------
struct Arena { unsigned char *mem; size_t cap; size_t base; size_t len; };
static std::map<std::string, Arena> arenas;
static long op_index = 0;
static void out(const std::string &k, const std::string &v) { printf("%ld %s=%s\n", op_index, k.c_str(), v.c_str()); }
static std::string b(bool x) { return x ? "1" : "0"; }
template <class M> static std::string maybe(M m) { return m.Known() ? (m.ValueOrDefault() ? "T" : "F") : "?"; }
static std::string hex(const unsigned char *p, size_t n) { std::string s; char t[3]; for (size_t i = 0; i < n; ++i) { snprintf(t, 3, "%02x", p[i]); s += t; } return s; }
static void repoison(Arena &a) { __asan_unpoison_memory_region(a.mem, a.cap); __asan_poison_memory_region(a.mem, a.base); __asan_poison_memory_region(a.mem + a.base + a.len, a.cap - a.base - a.len); }
template <class V> static std::string num(V v) { std::ostringstream o; o << +v; return o.str(); }
template <class View> static void obs_int(const std::string &p, View v) { out(p + ".ok", b(v.Ok())); if (v.Ok()) out(p + ".val", num(v.Read())); }
template <class View> static void obs_phys_int(const std::string &p, View v) { out(p + ".complete", b(v.IsComplete())); obs_int(p, v); }
template <class View> static void obs_bool(const std::string &p, View v) { out(p + ".complete", b(v.IsComplete())); out(p + ".ok", b(v.Ok())); if (v.Ok()) out(p + ".val", b(v.Read())); }
template <class View> static void obs_enum(const std::string &p, View v) { out(p + ".complete", b(v.IsComplete())); out(p + ".ok", b(v.Ok())); if (v.Ok()) out(p + ".val", num(static_cast<typename std::underlying_type<typename View::ValueType>::type>(v.Read()))); }
template <class View> static void obs_float(const std::string &p, View v) { out(p + ".complete", b(v.IsComplete())); out(p + ".ok", b(v.Ok())); if (v.Ok()) { auto f = v.Read(); unsigned char raw[sizeof f]; memcpy(raw, &f, sizeof f); out(p + ".bits", hex(raw, sizeof f)); } }
template <class View> static void obs_struct_head(const std::string &p, View v) { out(p + ".ok", b(v.Ok())); out(p + ".complete", b(v.IsComplete())); out(p + ".size_known", b(v.SizeIsKnown())); if (v.SizeIsKnown()) out(p + ".size", num(v.SizeInBytes())); }
template <class View, class I> static std::string try_write(View v, I x) { std::string r = b(v.CouldWriteValue(x)); r += b(v.TryToWrite(x)); return r; }

// ---- per-module part (emitted by the generator) -----------------------------
template <class View> static void observe_Item(const std::string &p, View v) {
  obs_struct_head(p, v);
  out(p + ".has_raw", maybe(v.has_raw())); obs_phys_int(p + ".raw", v.raw());
  out(p + ".has_val", maybe(v.has_val())); obs_int(p + ".val", v.val());
}
template <class View> static void observe_Frame(const std::string &p, View v) {
  obs_struct_head(p, v);
  out(p + ".has_kind", maybe(v.has_kind())); obs_enum(p + ".kind", v.kind());
  out(p + ".has_count", maybe(v.has_count())); obs_phys_int(p + ".count", v.count());
  out(p + ".has_urgent", maybe(v.has_urgent())); obs_bool(p + ".urgent", v.urgent());
  out(p + ".has_level", maybe(v.has_level())); obs_phys_int(p + ".level", v.level());
  out(p + ".has_items", maybe(v.has_items()));
  { auto a = v.items(); out(p + ".items.ok", b(a.Ok())); out(p + ".items.complete", b(a.IsComplete())); out(p + ".items.count", num(a.ElementCount()));
    for (size_t i = 0; i < a.ElementCount(); ++i) observe_Item(p + ".items[" + num(i) + "]", a[i]); }
  out(p + ".has_end_of_items", maybe(v.has_end_of_items())); obs_int(p + ".end_of_items", v.end_of_items());
  out(p + ".has_weight", maybe(v.has_weight())); obs_float(p + ".weight", v.weight());
  out(p + ".has_level_up", maybe(v.has_level_up())); obs_int(p + ".level_up", v.level_up());
}
static auto make_Frame(Arena &a, size_t off, size_t len) -> decltype(sim::MakeFrameView((unsigned char *)nullptr, size_t(0))) { return sim::MakeFrameView(a.mem + a.base + off, len); }
static std::string write_Frame(Arena &a, size_t off, size_t len, const std::string &path, bool neg, uint64_t mag) {
  auto v = make_Frame(a, off, len);
#define WR(view) (neg ? try_write(view, static_cast<int64_t>(0 - mag)) : try_write(view, mag))
  if (path == "count") return WR(v.count());
  if (path == "level") return WR(v.level());
  if (path == "level_up") return WR(v.level_up());
  if (path == "kind") { auto k = static_cast<sim::Kind>(static_cast<uint8_t>(mag)); return b(v.kind().CouldWriteValue(k)) + b(v.kind().TryToWrite(k)); }
  if (path == "urgent") return b(v.urgent().CouldWriteValue(mag != 0)) + b(v.urgent().TryToWrite(mag != 0));
  if (path.rfind("items[", 0) == 0) { size_t i = strtoul(path.c_str() + 6, nullptr, 10); if (i < v.items().ElementCount()) return WR(v.items()[i].raw()); return "--"; }
  return "??";
#undef WR
}

int main() {
  setvbuf(stdout, nullptr, _IONBF, 0);
  char line[4096];
  while (fgets(line, sizeof line, stdin)) {
    ++op_index; std::istringstream in(line); std::string op; in >> op;
    if (op == "A") { std::string name, hexs; size_t base; in >> name >> hexs >> base; if (hexs == "-") hexs = "";
      Arena a; a.cap = 256; a.mem = (unsigned char *)malloc(a.cap); memset(a.mem, 0xEE, a.cap); a.base = base; a.len = hexs.size() / 2;
      for (size_t i = 0; i < a.len; ++i) a.mem[a.base + i] = (unsigned char)strtoul(hexs.substr(2 * i, 2).c_str(), nullptr, 16);
      arenas[name] = a; repoison(arenas[name]);
    } else if (op == "D") { std::string name, hexs; in >> name >> hexs; Arena &a = arenas[name]; __asan_unpoison_memory_region(a.mem, a.cap);
      for (size_t i = 0; i < hexs.size() / 2; ++i) a.mem[a.base + a.len + i] = (unsigned char)strtoul(hexs.substr(2 * i, 2).c_str(), nullptr, 16);
      a.len += hexs.size() / 2; repoison(a);
    } else if (op == "F") { std::string name; size_t bit; in >> name >> bit; Arena &a = arenas[name]; a.mem[a.base + bit / 8] ^= (unsigned char)(1u << (bit % 8));
    } else if (op == "O") { std::string name; size_t off, len; in >> name >> off >> len; observe_Frame("Frame", make_Frame(arenas[name], off, len));
    } else if (op == "W") { std::string name, path, val; size_t off, len; in >> name >> off >> len >> path >> val; bool neg = val[0] == '-'; uint64_t mag = strtoull(val.c_str() + (neg ? 1 : 0), nullptr, 10);
      out("write." + path, write_Frame(arenas[name], off, len, path, neg, mag)); out("bytes", hex(arenas[name].mem + arenas[name].base, arenas[name].len));
    } else if (op == "C") { std::string d, s2; size_t doff, dlen, soff, slen; in >> d >> doff >> dlen >> s2 >> soff >> slen; auto dv = make_Frame(arenas[d], doff, dlen); auto sv = make_Frame(arenas[s2], soff, slen);
      out("copy", b(dv.TryToCopyFrom(sv))); out("dst", hex(arenas[d].mem + arenas[d].base, arenas[d].len)); out("src", hex(arenas[s2].mem + arenas[s2].base, arenas[s2].len));
    } else if (op == "E") { std::string d, s2; size_t doff, dlen, soff, slen; in >> d >> doff >> dlen >> s2 >> soff >> slen; auto dv = make_Frame(arenas[d], doff, dlen); auto sv = make_Frame(arenas[s2], soff, slen);
      if (dv.Ok() && sv.Ok()) out("equals", b(dv.Equals(sv)) + b(sv.Equals(dv))); else out("equals", "n/a");
    } else if (op == "T") { std::string name; size_t off, len; int ml, cm, grp, base; in >> name >> off >> len >> ml >> cm >> grp >> base; auto v = make_Frame(arenas[name], off, len);
      auto o = ::emboss::TextOutputOptions().Multiline(ml).WithComments(cm).WithDigitGrouping(grp).WithNumericBase(base).WithAllowPartialOutput(!v.Ok());
      std::string t = ::emboss::WriteToString(v, o); std::string esc; for (char c : t) esc += (c == '\n' ? std::string("\\n") : std::string(1, c)); out("text", esc);
    } else if (op == "R") { std::string name; size_t off, len; in >> name >> off >> len; std::string text; getline(in, text); size_t p; while ((p = text.find("\\n")) != std::string::npos) text.replace(p, 2, "\n");
      auto v = make_Frame(arenas[name], off, len); out("restore", b(::emboss::UpdateFromText(v, text))); out("bytes", hex(arenas[name].mem + arenas[name].base, arenas[name].len));
    }
  }
  return 0;
}
